"""Native replay for C13 (runs under /venv/bin/python on the REAL code, no z3).

Builds source documents in memory from the abstract shapes of contracts/C13_bounded.py -- docx / pptx / odt / odp /
epub as minimal zips with hand-written XML, html as text, xlsx via openpyxl, ods by hand, xls as a fake xlrd workbook
(no OLE2 writer is installed; the reader is entered at `_read_content` with `xlrd.open_workbook` replaced) -- runs the
public readers and compares `iterate_tables()` / `get_dim()` with the source grid.

find(req): req["witness"]["shape"] present -> replay exactly that shape for the obligation's clause; otherwise search
a small native scope for the function named by the obligation.  `self_check()` validates the assumed models
(ElementTree model, str.split/join = strip+collapse, xlrd constants) against the real libraries.
"""
import datetime
import io
import itertools
import os
import re
import zipfile

W_NS = "http://schemas.openxmlformats.org/wordprocessingml/2006/main"
A_NS = "http://schemas.openxmlformats.org/drawingml/2006/main"
P_NS = "http://schemas.openxmlformats.org/presentationml/2006/main"
R_NS = "http://schemas.openxmlformats.org/officeDocument/2006/relationships"
ODF = ('xmlns:office="urn:oasis:names:tc:opendocument:xmlns:office:1.0" xmlns:table="urn:oasis:names:tc:opendocument:xmlns:table:1.0" '
       'xmlns:text="urn:oasis:names:tc:opendocument:xmlns:text:1.0" xmlns:draw="urn:oasis:names:tc:opendocument:xmlns:drawing:1.0" '
       'xmlns:presentation="urn:oasis:names:tc:opendocument:xmlns:presentation:1.0" xmlns:svg="urn:oasis:names:tc:opendocument:xmlns:svg-compatible:1.0"')


def is_table(x):
    return isinstance(x, dict)


def bp(bi, b):
    """leaf-path prefix of block bi; a table marked {"like": "b0"} carries exactly the texts (and, where the format has one,
    the position) of block 0: two DISTINCT source tables with identical content"""
    return b.get("like", f"b{bi}") if isinstance(b, dict) else f"b{bi}"


def T(rows, hdr=0):
    return {"hdr": hdr, "rows": rows}


def tok(path):
    """deterministic sample text of a leaf"""
    return "w" + re.sub(r"[^0-9a-z]", "", path)


# paragraph items: "p" text in a run, "e" a run without text, "m" a paragraph mark only (no run), "h" the run sits in a wrapper element
# of the paragraph (docx: w:hyperlink / w:ins / w:smartTag); pptx cell markers (first item of a cell): "hm" / "vm" = the covered
# continuation cell of a horizontally / vertically merged region (holds no text, keeps the row at c grid columns), "h0" = an ordinary
# cell that spells the default out (hMerge="0" vMerge="false")
CELL_MARKS = ("hm", "vm", "h0")


def par_text(it, path):
    return "" if it in ("e", "m") else tok(path)


def tables_in_order(doc):
    out = []

    def tab(t, path):
        out.append((path, t))
        for ri, r in enumerate(t["rows"]):
            for ci, c in enumerate(r):
                for ii, it in enumerate(c):
                    if is_table(it):
                        tab(it, f"{path}.r{ri}c{ci}i{ii}")
    for bi, b in enumerate(doc):
        if is_table(b):
            tab(b, bp(bi, b))
    return out


def expected(doc, rule):
    return [[[rule(c, f"{path}.r{ri}c{ci}") for ci, c in enumerate(r)] for ri, r in enumerate(t["rows"])] for (path, t) in tables_in_order(doc)]


def nl_rule(cell, path):
    return "\n".join(par_text(it, f"{path}i{ii}") for ii, it in enumerate(cell) if not is_table(it))


def html_rule(cell, path):
    parts = []
    for ii, it in enumerate(cell):
        if is_table(it) or it == "/":
            continue
        ip = f"{path}i{ii}"
        parts.append(tok(ip + "a") + tok(ip + "b") if it == "s" else par_text(it, ip))
    return " ".join(" ".join(parts).split())


def pptx_rule(cell, path):
    return "\n".join(par_text(it, f"{path}i{ii}") for ii, it in enumerate(cell) if not is_table(it) and it not in CELL_MARKS).strip()


def zipped(files):
    buf = io.BytesIO()
    with zipfile.ZipFile(buf, "w", zipfile.ZIP_DEFLATED) as z:
        for k, v in files.items():
            z.writestr(k, v)
    return buf.getvalue()


# ---------------------------------------------------------------------- docx --
def docx_bytes(doc):
    def par(text, kind="p"):
        run = f'<w:r><w:t xml:space="preserve">{text}</w:t></w:r>'
        if kind == "m":
            return "<w:p><w:pPr/></w:p>"
        if kind == "h":
            return f'<w:p><w:pPr/><w:hyperlink w:anchor="top" w:history="1">{run}</w:hyperlink></w:p>'
        return f"<w:p>{run}</w:p>"

    def table(t, path):
        rows = ""
        for ri, r in enumerate(t["rows"]):
            cells = ""
            for ci, c in enumerate(r):
                items = ""
                for ii, it in enumerate(c):
                    ip = f"{path}.r{ri}c{ci}i{ii}"
                    items += table(it, ip) if is_table(it) else par(par_text(it, ip), it)
                cells += f"<w:tc><w:tcPr/>{items}</w:tc>"
            rows += f"<w:tr>{cells}</w:tr>"
        return f"<w:tbl><w:tblPr/><w:tblGrid/>{rows}</w:tbl>"
    body = "".join(table(b, bp(bi, b)) if is_table(b) else par(tok(f"b{bi}")) for bi, b in enumerate(doc))
    document = f'<?xml version="1.0" encoding="UTF-8" standalone="yes"?><w:document xmlns:w="{W_NS}"><w:body>{body}<w:sectPr/></w:body></w:document>'
    return zipped({
        "[Content_Types].xml": '<?xml version="1.0" encoding="UTF-8"?><Types xmlns="http://schemas.openxmlformats.org/package/2006/content-types">'
                               '<Default Extension="rels" ContentType="application/vnd.openxmlformats-package.relationships+xml"/><Default Extension="xml" ContentType="application/xml"/>'
                               '<Override PartName="/word/document.xml" ContentType="application/vnd.openxmlformats-officedocument.wordprocessingml.document.main+xml"/></Types>',
        "_rels/.rels": f'<?xml version="1.0" encoding="UTF-8"?><Relationships xmlns="http://schemas.openxmlformats.org/package/2006/relationships">'
                       f'<Relationship Id="rId1" Type="{R_NS}/officeDocument" Target="word/document.xml"/></Relationships>',
        "word/document.xml": document,
        "word/_rels/document.xml.rels": '<?xml version="1.0" encoding="UTF-8"?><Relationships xmlns="http://schemas.openxmlformats.org/package/2006/relationships"/>',
    })


# ---------------------------------------------------------------------- pptx --
def _pptx_slide_xml(tables):
    """one slide, one graphic frame per table (DrawingML tables do not nest)"""
    frames = ""
    for ti, t in enumerate(tables):
        rows = ""
        for ri, r in enumerate(t["rows"]):
            cells = ""
            for ci, c in enumerate(r):
                ps = "".join(f"<a:p><a:r><a:t>{par_text(it, f'{bp(ti, t)}.r{ri}c{ci}i{ii}')}</a:t></a:r></a:p>" for ii, it in enumerate(c) if not is_table(it) and it not in CELL_MARKS)
                at = ' hMerge="1"' if "hm" in c else (' vMerge="1"' if "vm" in c else (' hMerge="0" vMerge="false"' if "h0" in c else ""))
                if ci + 1 < len(r) and "hm" in r[ci + 1]:
                    at += ' gridSpan="2"'
                if ri + 1 < len(t["rows"]) and ci < len(t["rows"][ri + 1]) and "vm" in t["rows"][ri + 1][ci]:
                    at += ' rowSpan="2"'
                cells += f"<a:tc{at}><a:txBody><a:bodyPr/>{ps or '<a:p/>'}</a:txBody><a:tcPr/></a:tc>" if c else "<a:tc><a:tcPr/></a:tc>"
            rows += f'<a:tr h="370840">{cells}</a:tr>'
        frames += (f'<p:graphicFrame><p:nvGraphicFramePr><p:cNvPr id="{ti + 4}" name="Table {ti}"/><p:cNvGraphicFramePr/><p:nvPr/></p:nvGraphicFramePr>'
                   f'<p:xfrm><a:off x="0" y="{int(bp(ti, t)[1:]) * 1000000}"/><a:ext cx="100" cy="100"/></p:xfrm><a:graphic><a:graphicData uri="http://schemas.openxmlformats.org/drawingml/2006/table">'
                   f'<a:tbl><a:tblPr/><a:tblGrid/>{rows}</a:tbl></a:graphicData></a:graphic></p:graphicFrame>')
    slide = (f'<?xml version="1.0" encoding="UTF-8" standalone="yes"?><p:sld xmlns:a="{A_NS}" xmlns:p="{P_NS}" xmlns:r="{R_NS}"><p:cSld><p:spTree>'
             f'<p:nvGrpSpPr><p:cNvPr id="1" name=""/><p:cNvGrpSpPr/><p:nvPr/></p:nvGrpSpPr><p:grpSpPr/>{frames}</p:spTree></p:cSld></p:sld>')
    return slide


def pptx_bytes(tables, more_slides=()):
    """one slide per table list (the first from `tables`, further ones from `more_slides`)"""
    slides = [_pptx_slide_xml(tables)] + [_pptx_slide_xml(t) for t in more_slides]
    n = len(slides)
    pres = (f'<?xml version="1.0" encoding="UTF-8" standalone="yes"?><p:presentation xmlns:a="{A_NS}" xmlns:p="{P_NS}" xmlns:r="{R_NS}"><p:sldIdLst>'
            + "".join(f'<p:sldId id="{256 + k}" r:id="rId{k + 1}"/>' for k in range(n)) + "</p:sldIdLst></p:presentation>")
    files = {
        "[Content_Types].xml": '<?xml version="1.0" encoding="UTF-8"?><Types xmlns="http://schemas.openxmlformats.org/package/2006/content-types">'
                               '<Default Extension="rels" ContentType="application/vnd.openxmlformats-package.relationships+xml"/><Default Extension="xml" ContentType="application/xml"/>'
                               '<Override PartName="/ppt/presentation.xml" ContentType="application/vnd.openxmlformats-officedocument.presentationml.presentation.main+xml"/>'
                               + "".join(f'<Override PartName="/ppt/slides/slide{k + 1}.xml" ContentType="application/vnd.openxmlformats-officedocument.presentationml.slide+xml"/>' for k in range(n))
                               + "</Types>",
        "_rels/.rels": f'<?xml version="1.0" encoding="UTF-8"?><Relationships xmlns="http://schemas.openxmlformats.org/package/2006/relationships">'
                       f'<Relationship Id="rId1" Type="{R_NS}/officeDocument" Target="ppt/presentation.xml"/></Relationships>',
        "ppt/presentation.xml": pres,
        "ppt/_rels/presentation.xml.rels": '<?xml version="1.0" encoding="UTF-8"?><Relationships xmlns="http://schemas.openxmlformats.org/package/2006/relationships">'
                                           + "".join(f'<Relationship Id="rId{k + 1}" Type="{R_NS}/slide" Target="slides/slide{k + 1}.xml"/>' for k in range(n)) + "</Relationships>",
    }
    for k, sl in enumerate(slides):
        files[f"ppt/slides/slide{k + 1}.xml"] = sl
        files[f"ppt/slides/_rels/slide{k + 1}.xml.rels"] = '<?xml version="1.0" encoding="UTF-8"?><Relationships xmlns="http://schemas.openxmlformats.org/package/2006/relationships"/>'
    return zipped(files)


# ----------------------------------------------------------------------- odf --
def odf_table(t, path, name="T"):
    rows = []
    for ri, r in enumerate(t["rows"]):
        cells = ""
        for ci, c in enumerate(r):
            items = ""
            for ii, it in enumerate(c):
                ip = f"{path}.r{ri}c{ci}i{ii}"
                items += odf_table(it, ip, "N") if is_table(it) else f"<text:p>{par_text(it, ip)}</text:p>"
            cells += f'<table:table-cell office:value-type="string">{items}</table:table-cell>'
        rows.append(f"<table:table-row>{cells}</table:table-row>")
    if t["hdr"]:
        rows = ["<table:table-header-rows>" + "".join(rows[:t["hdr"]]) + "</table:table-header-rows>"] + rows[t["hdr"]:]
    ncol = max(len(r) for r in t["rows"])
    return f'<table:table table:name="{name}"><table:table-column table:number-columns-repeated="{ncol}"/>{"".join(rows)}</table:table>'


def odf_zip(mimetype, body):
    content = f'<?xml version="1.0" encoding="UTF-8"?><office:document-content {ODF} office:version="1.2"><office:body>{body}</office:body></office:document-content>'
    return zipped({"mimetype": mimetype, "content.xml": content,
                   "meta.xml": f'<?xml version="1.0" encoding="UTF-8"?><office:document-meta {ODF} xmlns:meta="urn:oasis:names:tc:opendocument:xmlns:meta:1.0"><office:meta/></office:document-meta>',
                   "META-INF/manifest.xml": '<?xml version="1.0"?><manifest:manifest xmlns:manifest="urn:oasis:names:tc:opendocument:xmlns:manifest:1.0"/>'})


def odt_bytes(doc):
    body = "".join(odf_table(b, bp(bi, b)) if is_table(b) else f"<text:p>{tok(f'b{bi}')}</text:p>" for bi, b in enumerate(doc))
    return odf_zip("application/vnd.oasis.opendocument.text", f"<office:text>{body}</office:text>")


def odp_bytes(doc, more_pages=()):
    if more_pages:
        pages = ""
        for k, d in enumerate([doc] + list(more_pages)):
            inner = odp_bytes_frames(d)
            pages += f'<draw:page draw:name="page{k + 1}">{inner}</draw:page>'
        return odf_zip("application/vnd.oasis.opendocument.presentation", f"<office:presentation>{pages}</office:presentation>")
    return odf_zip("application/vnd.oasis.opendocument.presentation",
                   f'<office:presentation><draw:page draw:name="page1">{odp_bytes_frames(doc)}</draw:page></office:presentation>')


def odp_bytes_frames(doc, positions="ascending", empty_frame=False):
    if positions != "ascending" or empty_frame:
        at = lambda bi: "" if positions == "none" else ('svg:x="1cm" svg:y="2cm"' if positions == "equal" else f'svg:x="1cm" svg:y="{bi + 1}cm"')
        fr = [f'<draw:frame {at(bi)} svg:width="5cm" svg:height="1cm">{odf_table(b, bp(bi, b))}</draw:frame>' for bi, b in enumerate(doc) if is_table(b)]
        if empty_frame:
            fr.insert(1 if len(fr) > 1 else 0, "<draw:frame/>")
        return "".join(fr)
    frames = "".join(f'<draw:frame svg:x="1cm" svg:y="{bi}cm" svg:width="5cm" svg:height="1cm">{odf_table(b, bp(bi, b))}</draw:frame>' if is_table(b)
                     else f'<draw:frame><draw:text-box><text:p>{tok(f"b{bi}")}</text:p></draw:text-box></draw:frame>' for bi, b in enumerate(doc))
    return frames


# ---------------------------------------------------------------- html / epub --
def html_text(doc):
    def par(it, ip):
        if it == "s":
            return f"<p>{tok(ip + 'a')}<b>{tok(ip + 'b')}</b></p>"
        return f"<p>{par_text(it, ip)}</p>"

    def table(t, path):
        if t.get("wrap"):           # the table sits inside non-table elements (<font><center>..., <div>...)
            inner = table({k: v for k, v in t.items() if k != "wrap"}, path)
            return "".join(f"<{w}>" for w in t["wrap"]) + inner + "".join(f"</{w}>" for w in reversed(t["wrap"]))
        out = "<table>"
        for ri, r in enumerate(t["rows"]):
            if t["hdr"] and ri == 0:
                out += "<thead>"
            if t["hdr"] and ri == t["hdr"]:
                out += "</thead><tbody>"
            out += "<tr>"
            for ci, c in enumerate(r):
                ctag = "th" if ri < t["hdr"] else "td"
                cp = f"{path}.r{ri}c{ci}"
                if c == ["/"]:          # empty cell in self-closed form
                    out += f"<{ctag}/>"
                    continue
                out += f"<{ctag}>"
                if c == ["p"]:
                    out += tok(cp + "i0")
                else:
                    for ii, it in enumerate(c):
                        out += table(it, f"{cp}i{ii}") if is_table(it) else par(it, f"{cp}i{ii}")
                out += f"</{ctag}>"
            out += "</tr>"
        if t["hdr"]:
            out += "</tbody>" if len(t["rows"]) > t["hdr"] else "</thead>"
        return out + "</table>"
    body = "".join(table(b, bp(bi, b)) if is_table(b) else par("p", f"b{bi}") for bi, b in enumerate(doc))
    return f"<html><head><title>t</title></head><body>{body}</body></html>"


def epub_bytes(doc, more_chapters=()):
    if more_chapters:
        docs = [doc] + list(more_chapters)
        xh = lambda d: '<?xml version="1.0" encoding="UTF-8"?><!DOCTYPE html>' + html_text(d).replace("<html>", '<html xmlns="http://www.w3.org/1999/xhtml">')
        opf = ('<?xml version="1.0" encoding="UTF-8"?><package xmlns="http://www.idpf.org/2007/opf" version="3.0" unique-identifier="id">'
               '<metadata xmlns:dc="http://purl.org/dc/elements/1.1/"><dc:identifier id="id">x</dc:identifier><dc:title>t</dc:title><dc:language>en</dc:language></metadata><manifest>'
               + "".join(f'<item id="c{k + 1}" href="c{k + 1}.xhtml" media-type="application/xhtml+xml"/>' for k in range(len(docs))) + "</manifest><spine>"
               + "".join(f'<itemref idref="c{k + 1}"/>' for k in range(len(docs))) + "</spine></package>")
        files = {"mimetype": "application/epub+zip",
                 "META-INF/container.xml": '<?xml version="1.0"?><container version="1.0" xmlns="urn:oasis:names:tc:opendocument:xmlns:container"><rootfiles>'
                                           '<rootfile full-path="OEBPS/content.opf" media-type="application/oebps-package+xml"/></rootfiles></container>',
                 "OEBPS/content.opf": opf}
        for k, d in enumerate(docs):
            files[f"OEBPS/c{k + 1}.xhtml"] = xh(d)
        return zipped(files)
    xhtml = '<?xml version="1.0" encoding="UTF-8"?><!DOCTYPE html>' + html_text(doc).replace("<html>", '<html xmlns="http://www.w3.org/1999/xhtml">')
    opf = ('<?xml version="1.0" encoding="UTF-8"?><package xmlns="http://www.idpf.org/2007/opf" version="3.0" unique-identifier="id">'
           '<metadata xmlns:dc="http://purl.org/dc/elements/1.1/"><dc:identifier id="id">x</dc:identifier><dc:title>t</dc:title><dc:language>en</dc:language></metadata>'
           '<manifest><item id="c1" href="c1.xhtml" media-type="application/xhtml+xml"/></manifest><spine><itemref idref="c1"/></spine></package>')
    return zipped({"mimetype": "application/epub+zip",
                   "META-INF/container.xml": '<?xml version="1.0"?><container version="1.0" xmlns="urn:oasis:names:tc:opendocument:xmlns:container"><rootfiles>'
                                             '<rootfile full-path="OEBPS/content.opf" media-type="application/oebps-package+xml"/></rootfiles></container>',
                   "OEBPS/content.opf": opf, "OEBPS/c1.xhtml": xhtml})


# ----------------------------------------------------------------------- rtf --
RTF_FILLER = "Between the tables stands a paragraph that is long enough to count as running text of the document and not as part of a table row at all."


def rtf_bytes(doc, row_sep="\n", cell_prefix="\\intbl "):
    """rows `\\trowd...\\cell...\\row` joined by row_sep ('' = written back to back); tables separated by a long paragraph
    (RTF has no table delimiter: adjacent rows ARE one table)"""
    out = "{\\rtf1\\ansi\\deff0{\\fonttbl{\\f0 Arial;}}\\pard Intro paragraph\\par "
    prev_table = False
    for bi, b in enumerate(doc):
        if not is_table(b):
            out += "\\pard " + (RTF_FILLER + " " + tok(f"b{bi}")) + "\\par "
            prev_table = False
            continue
        if prev_table:
            out += "\\pard " + RTF_FILLER + "\\par "
        rows = []
        for ri, r in enumerate(b["rows"]):
            defs = "".join(f"\\cellx{1500 * (i + 1)}" for i in range(len(r)))
            cells = ""
            for ci, c in enumerate(r):
                pars = [par_text(it, f"{bp(bi, b)}.r{ri}c{ci}i{ii}") for ii, it in enumerate(c) if not is_table(it)]
                cells += cell_prefix + "\\par ".join(pars) + "\\cell"
            rows.append(f"\\trowd\\trgaph108{defs}{cells}\\row")
        out += row_sep.join(rows)
        prev_table = True
    return (out + "\\pard After\\par}").encode("ascii")


def rtf_expected(doc):
    return [[[ "\n".join(par_text(it, f"{bp(bi, b)}.r{ri}c{ci}i{ii}") for ii, it in enumerate(c) if not is_table(it)) for ci, c in enumerate(r)]
             for ri, r in enumerate(b["rows"])] for bi, b in enumerate(doc) if is_table(b)]


RTF_LAYOUTS = (("\n", "\\intbl "), ("", "\\intbl "), ("\n", " "), ("", " "), ("\r\n", "\\pard\\intbl "), (" ", "\\intbl "))


def rtf_shapes():
    P = ["p"]
    return [[T([[P]])], [T([[P, P]])], [T([[P], [P]])], [T([[P, P], [P, P]])], [T([[P, P], [P, P], [P, P]])], [T([[P], [P], [P], [P]])],
            [T([[[], P], [P, []]])], [T([[["p", "p"], P]])], [T([[P]]), T([[P, P], [P, P]])], [T([[P], [P]]), "p", T([[P], [P]])], ["p", T([[P, P]])]]


def search_rtf(clauses=("tables-in-document-order", "rows-and-cells", "cell-holds")):
    from sharepoint2text.parsing.extractors.ms_legacy.rtf_extractor import read_rtf
    for doc in rtf_shapes():
        want = rtf_expected(doc)
        for sep, pre in RTF_LAYOUTS:
            data = rtf_bytes(doc, sep, pre)
            res = list(read_rtf(io.BytesIO(data), "a.rtf"))[0]
            tabs = list(res.iterate_tables())
            got, dims = [t.get_table() for t in tabs], [t.get_dim() for t in tabs]
            for cl in clauses:
                bad, detail = clause_fails(cl, got, want)
                if not bad and not dims_ok(got, dims):
                    bad, detail = True, "get_dim() disagrees with get_table()"
                if bad:
                    return {"target": "rtf_extractor.py::read_rtf", "inputs": {"shape": doc, "row_separator": sep, "cell_prefix": pre, "rtf": data.decode("ascii")},
                            "expected": want, "observed": got, "detail": detail}
    return None


# -------------------------------------------------------------------- sheets --
SAMPLE_DT = datetime.datetime(2024, 1, 2, 3, 4, 5)


def sheet_value(kind, i, j, first_row=False):
    if kind == "N":
        return None
    if kind == "s":
        return tok(f"r{i}c{j}")
    if kind == "=":
        return tok(f"r{i}c{j - 1}")
    if kind == "i":
        return 7 if first_row else 10 * i + j + 3
    if kind == "f":
        return i + j + 0.25
    if kind == "F":
        return 7.0 if first_row else float(10 * i + j + 3)
    if kind == "b":
        return (i + j) % 2 == 0
    if kind == "d":
        return SAMPLE_DT
    raise ValueError(kind)


def used_range(sh):
    r = max([i + 1 for i, row in enumerate(sh) if any(k != "N" for k in row)] + [0])
    c = max([j + 1 for row in sh for j, k in enumerate(row) if k != "N"] + [0])
    return r, c


def xlsx_bytes(sh, copies=1):
    import openpyxl
    wb = openpyxl.Workbook()
    for n in range(copies):
        ws = wb.active if n == 0 else wb.create_sheet(f"Copy{n}")
        for i, row in enumerate(sh):
            for j, k in enumerate(row):
                v = sheet_value(k, i, j, i == 0)
                if v is not None:
                    ws.cell(row=i + 1, column=j + 1, value=v)
    buf = io.BytesIO()
    wb.save(buf)
    return buf.getvalue()


def xlsx_expected(sh):
    r, c = used_range(sh)
    def typed(k, i, j):
        v = sheet_value(k, i, j, i == 0)
        return v.isoformat() if isinstance(v, (datetime.datetime, datetime.date, datetime.time)) else v
    return [[[typed(sh[i][j], i, j) for j in range(c)] for i in range(r)]]


XLS_NAMES = {0: "name0", 1: "name1"}


def xls_expected(sh):
    def typed(k, i, j):
        if k == "N":
            return None
        if i == 0 and k in ("s", "="):
            return XLS_NAMES[j if k == "s" else j - 1]
        v = sheet_value(k, i, j, i == 0)
        return int(v) if k == "F" else v
    return [[[typed(k, i, j) for j, k in enumerate(row)] for i, row in enumerate(sh)]]


def xls_tables(sh, copies=1):
    """enter the real reader at _read_content with a fake parsed workbook (real xlrd Cell objects)"""
    import xlrd
    from xlrd.sheet import Cell
    from sharepoint2text.parsing.extractors.ms_legacy import xls_extractor as x
    CT = {"N": xlrd.XL_CELL_EMPTY, "s": xlrd.XL_CELL_TEXT, "=": xlrd.XL_CELL_TEXT, "F": xlrd.XL_CELL_NUMBER, "f": xlrd.XL_CELL_NUMBER, "b": xlrd.XL_CELL_BOOLEAN}

    def cell(k, i, j):
        if k == "N":
            return Cell(CT[k], "")
        if i == 0 and k in ("s", "="):
            return Cell(CT[k], XLS_NAMES[j if k == "s" else j - 1])
        v = sheet_value(k, i, j, i == 0)
        return Cell(CT[k], int(v) if k == "b" else v)

    class Sheet:
        name, nrows, ncols = "S", len(sh), len(sh[0])

        def cell(self, r, c):
            return cell(sh[r][c], r, c)

    class Book:
        datemode = 0

        def sheets(self):
            return [Sheet() for _ in range(copies)]
    real = xlrd.open_workbook
    xlrd.open_workbook = lambda *a, **k: Book()
    try:
        sheets = x._read_content(io.BytesIO(b""))
    finally:
        xlrd.open_workbook = real
    return [s.get_table() for s in sheets], [s.get_dim() for s in sheets]


ODS_CONST = {"i": ("float", "value", "3", 3), "f": ("float", "value", "2.5", 2.5), "d": ("date", "date-value", "2024-01-02", "2024-01-02"),
             "b": ("boolean", "boolean-value", "true", True)}


def ods_bytes(sh, header_rows_wrapper=0):
    rows = []
    for i, row in enumerate(sh):
        cells = ""
        for j, k in enumerate(row):
            if k == "N":
                cells += "<table:table-cell/>"
            elif k in ("s", "="):
                cells += f'<table:table-cell office:value-type="string"><text:p>{sheet_value(k, i, j)}</text:p></table:table-cell>'
            else:
                vt, an, val, _ = ODS_CONST[k]
                cells += f'<table:table-cell office:value-type="{vt}" office:{an}="{val}"><text:p>{val}</text:p></table:table-cell>'
        rows.append(f"<table:table-row>{cells}</table:table-row>")
    if header_rows_wrapper:
        rows = ["<table:table-header-rows>" + rows[0] + "</table:table-header-rows>"] + rows[1:]
    body = f'<office:spreadsheet><table:table table:name="S"><table:table-column table:number-columns-repeated="{len(sh[0])}"/>{"".join(rows)}</table:table></office:spreadsheet>'
    return odf_zip("application/vnd.oasis.opendocument.spreadsheet", body)


ODS_LITERALS = [("date", "date-value", "2024-01-02", "2024-01-02"), ("date", "date-value", "2024-01-02T00:00:00", "2024-01-02T00:00:00"),
                ("date", "date-value", "2024-01-02T10:30:00", "2024-01-02T10:30:00"), ("date", "date-value", "1999-12-31T23:59:59.5", "1999-12-31T23:59:59.5"),
                ("time", "time-value", "PT10H30M00S", "PT10H30M00S"), ("time", "time-value", "PT00H00M00S", "PT00H00M00S"),
                ("boolean", "boolean-value", "true", True), ("boolean", "boolean-value", "false", False),
                ("float", "value", "3", 3), ("float", "value", "2.5", 2.5), ("float", "value", "0", 0), ("float", "value", "-4.0", -4),
                ("currency", "value", "1250.75", 1250.75), ("percentage", "value", "0.5", 0.5),
                # xsd:double lexical forms with an exponent / explicit sign / bare point (LibreOffice: 1E+020, 5E-05)
                ("float", "value", "1E+020", 10 ** 20), ("float", "value", "5E-05", 5e-05), ("float", "value", "1e3", 1000), ("currency", "value", "-25E-2", -0.25),
                ("percentage", "value", "1.5E+3", 1500), ("float", "value", "2.5e-1", 0.25), ("float", "value", "+7", 7), ("float", "value", "12.", 12)]


def search_ods_values():
    """typed ODS cells through the public reader: one row per literal (label, value)"""
    rows = ""
    for i, (vt, an, lit, _want) in enumerate(ODS_LITERALS):
        rows += (f'<table:table-row><table:table-cell office:value-type="string"><text:p>k{i}</text:p></table:table-cell>'
                 f'<table:table-cell office:value-type="{vt}" office:{an}="{lit}"><text:p>shown{i}</text:p></table:table-cell></table:table-row>')
    body = f'<office:spreadsheet><table:table table:name="S"><table:table-column table:number-columns-repeated="2"/>{rows}</table:table></office:spreadsheet>'
    got, dims = read_tables("ods", odf_zip("application/vnd.oasis.opendocument.spreadsheet", body))
    grid = got[0] if got else []
    for i, (vt, an, lit, want) in enumerate(ODS_LITERALS):
        val = grid[i][1] if i < len(grid) and len(grid[i]) > 1 else "<missing>"
        if not same(val, want):
            return {"target": "ods_extractor.py::read_ods", "inputs": {"office:value-type": vt, f"office:{an}": lit}, "expected": want, "observed": val,
                    "detail": f"cell with office:value-type={vt} office:{an}={lit!r} came back as {val!r}"}
    return None


def ods_expected(sh):
    r, c = used_range(sh)
    def typed(k, i, j):
        if k == "N":
            return None
        if k in ("s", "="):
            return sheet_value(k, i, j)
        return ODS_CONST[k][3]
    return [[[typed(sh[i][j], i, j) for j in range(c)] for i in range(r)]]


# ------------------------------------------------------------------- running --
def read_tables(fmt, data):
    from sharepoint2text.parsing.extractors.ms_modern.docx_extractor import read_docx
    from sharepoint2text.parsing.extractors.ms_modern.pptx_extractor import read_pptx
    from sharepoint2text.parsing.extractors.ms_modern.xlsx_extractor import read_xlsx
    from sharepoint2text.parsing.extractors.open_office.odt_extractor import read_odt
    from sharepoint2text.parsing.extractors.open_office.odp_extractor import read_odp
    from sharepoint2text.parsing.extractors.open_office.ods_extractor import read_ods
    from sharepoint2text.parsing.extractors.html_extractor import read_html
    from sharepoint2text.parsing.extractors.epub_extractor import read_epub
    fn = {"docx": read_docx, "pptx": read_pptx, "xlsx": read_xlsx, "odt": read_odt, "odp": read_odp, "ods": read_ods, "html": read_html, "epub": read_epub}[fmt]
    res = list(fn(io.BytesIO(data), "a." + fmt))[0]
    tabs = list(res.iterate_tables())
    return [t.get_table() for t in tabs], [t.get_dim() for t in tabs]


FORMATS = {
    "docx_extractor.py": ("docx", lambda d: docx_bytes(d), lambda d: expected(d, nl_rule)),
    "odt_extractor.py": ("odt", lambda d: odt_bytes(d), lambda d: expected(d, nl_rule)),
    "odp_extractor.py": ("odp", lambda d: odp_bytes(d), lambda d: expected(d, nl_rule)),
    "pptx_extractor.py": ("pptx", lambda d: pptx_bytes([b for b in d if is_table(b)]), lambda d: expected(d, pptx_rule)),
    "html_extractor.py": ("html", lambda d: html_text(d).encode(), lambda d: expected(d, html_rule)),
    "epub_extractor.py": ("epub", lambda d: epub_bytes(d), lambda d: expected(d, html_rule)),
    "xlsx_extractor.py": ("xlsx", xlsx_bytes, xlsx_expected),
    "ods_extractor.py": ("ods", None, ods_expected),
    "xls_extractor.py": ("xls", None, xls_expected),
}


def same(a, b):
    if isinstance(a, bool) != isinstance(b, bool):
        return False
    if isinstance(a, (int, float)) and isinstance(b, (int, float)):
        return type(a) is type(b) and a == b
    return a == b


def clause_fails(clause, got, want):
    """does the native result violate this clause of the grid specification? -> (bool, detail)"""
    if "tables-in-document-order" in clause:
        return len(got) != len(want), f"{len(got)} tables returned, {len(want)} in the source"
    for ti in range(min(len(got), len(want))):
        g, w = got[ti], want[ti]
        if "rows-and-cells" in clause:
            gs, ws = [len(r) for r in g], [len(r) for r in w]
            if gs != ws:
                return True, f"table {ti}: row lengths returned {gs}, source {ws}"
        if "cell-holds" in clause:
            for ri in range(min(len(g), len(w))):
                for ci in range(min(len(g[ri]), len(w[ri]))):
                    if not same(g[ri][ci], w[ri][ci]):
                        return True, f"table {ti} cell ({ri},{ci}) returned {g[ri][ci]!r}, source cell holds {w[ri][ci]!r}"
    return False, ""


def dims_ok(tables, dims):
    for t, d in zip(tables, dims):
        if (d.rows, d.columns) != (len(t), max((len(r) for r in t), default=0)):
            return False
    return True


def run_shape(fname, shape):
    fmt, build, exp = FORMATS[fname]
    if fmt == "odp" and isinstance(shape, dict) and "positions" in shape:      # frames without / with ascending / with equal positions
        body = f'<office:presentation><draw:page draw:name="page1">{odp_bytes_frames(shape["doc"], shape["positions"], shape.get("empty_frame", False))}</draw:page></office:presentation>'
        got, dims = read_tables("odp", odf_zip("application/vnd.oasis.opendocument.presentation", body))
        return got, expected(shape["doc"], nl_rule), dims
    if isinstance(shape, dict) and "units" in shape and fmt in ("pptx", "odp", "epub"):
        # several slides / pages / chapters, each with its own tables (texts repeat across units: identical tables on different units)
        us = shape["units"]
        tabs = lambda d: [b for b in d if is_table(b)]
        data = (pptx_bytes(tabs(us[0]), [tabs(u) for u in us[1:]]) if fmt == "pptx" else
                odp_bytes(us[0], us[1:]) if fmt == "odp" else epub_bytes(us[0], us[1:]))
        got, dims = read_tables(fmt, data)
        want = []
        for u in us:
            want += (expected(u, nl_rule) if fmt == "odp" else exp(u))
        return got, want, dims
    if fmt in ("xls", "xlsx") and isinstance(shape, dict) and "copies" in shape:      # several sheets with identical content
        n, rows = shape["copies"], shape["rows"]
        got, dims = xls_tables(rows, n) if fmt == "xls" else read_tables("xlsx", xlsx_bytes(rows, n))
        return got, exp(rows) * n, dims
    if fmt == "xls":
        got, dims = xls_tables(shape)
        return got, exp(shape), dims
    if fmt == "ods":
        wrapper = 0
        if isinstance(shape, dict):
            wrapper, shape = shape.get("header_rows_wrapper", 0), shape["rows"]
        got, dims = read_tables("ods", ods_bytes(shape, wrapper))
        return got, exp(shape), dims
    got, dims = read_tables(fmt, build(shape))
    return got, exp(shape), dims


def replay_shape(obligation, shape):
    fname = obligation.split("/")[1].split("::")[0]
    clause = obligation.split("#")[-1]
    if fname == "rtf_extractor.py" and isinstance(shape, dict) and "doc" in shape:
        from sharepoint2text.parsing.extractors.ms_legacy.rtf_extractor import read_rtf
        res = list(read_rtf(io.BytesIO(rtf_bytes(shape["doc"], shape.get("row_separator", "\n"), shape.get("cell_prefix", "\\intbl "))), "a.rtf"))[0]
        tabs = list(res.iterate_tables())
        got, dims, want = [t.get_table() for t in tabs], [t.get_dim() for t in tabs], rtf_expected(shape["doc"])
        if "no-exception" in clause:
            return False, "no exception natively", got, want
        bad, detail = clause_fails(clause, got, want)
        if not bad and not dims_ok(got, dims):
            bad, detail = True, "get_dim() disagrees with get_table()"
        return bad, detail, got, want
    try:
        got, want, dims = run_shape(fname, shape)
    except Exception as e:  # noqa  (the public reader failed: every table of the document is lost, whatever the clause)
        return True, f"the reader raised {type(e).__name__}: {e}"[:300], None, None
    if "no-exception" in clause:
        return False, "no exception natively", got, want
    bad, detail = clause_fails(clause, got, want)
    if not bad and not dims_ok(got, dims):
        bad, detail = True, "get_dim() disagrees with get_table()"
    return bad, detail, got, want


# ----------------------------------------------------------- symbolic targets --
def search_dims():
    """get_dim() == (len(get_table()), max row length) on generated grids, every table class"""
    from sharepoint2text.parsing.extractors import data_types as dt
    grids = [[], [[]], [[1]], [[1, 2], [3]], [[1], [2, 3, 4], []], [["a", None], [None, None]]]
    for cls in (dt.TableData, dt.XlsxSheet, dt.OdsSheet, dt.OdtTable, dt.RtfTable):
        for g in grids:
            o = cls(data=[list(r) for r in g])
            d = o.get_dim()
            if o.get_table() != g or (d.rows, d.columns) != (len(g), max((len(r) for r in g), default=0)):
                return {"target": f"data_types.py::{cls.__name__}.get_dim", "inputs": {"data": g}, "expected": [len(g), max((len(r) for r in g), default=0)],
                        "observed": [d.rows, d.columns, o.get_table()]}
    recs = [[], [{"a": 1}], [{"a": 1, "b": 2}, {"a": 3, "b": None}], [{"a": 1, "b": 2}, {"b": 5}]]
    for r in recs:
        o = dt.XlsSheet(data=[dict(x) for x in r])
        want = [] if not r else [list(r[0].keys())] + [[x.get(h) for h in r[0].keys()] for x in r]
        d = o.get_dim()
        if o.get_table() != want or (d.rows, d.columns) != (len(want), max((len(x) for x in want), default=0)):
            return {"target": "data_types.py::XlsSheet.get_table/get_dim", "inputs": {"data": r}, "expected": want, "observed": [o.get_table(), d.rows, d.columns]}
    return None


def search_xls_values(branch):
    import xlrd
    from xlrd.sheet import Cell
    from sharepoint2text.parsing.extractors.ms_legacy import xls_extractor as x

    class WB:
        datemode = 0
    if branch == "failed":
        cands = [31.0, 60.0, -1.0]
    elif branch == "time":
        cands = [0.5, 0.0, 0.25]
    else:
        cands = []
    for v in cands:
        native, text = x._get_cell_values(Cell(xlrd.XL_CELL_DATE, v), WB())
        single = x._get_cell_value(Cell(xlrd.XL_CELL_DATE, v), WB())
        ok = isinstance(native, str) and re.fullmatch(r"(\d{4}-(0[1-9]|1[0-2])-(0[1-9]|[12]\d|3[01])([ T]\d\d:\d\d:\d\d)?|\d\d:\d\d:\d\d)", native) is not None
        if not ok:
            return {"target": "xls_extractor.py::_get_cell_values", "inputs": {"ctype": "XL_CELL_DATE", "value": v, "datemode": 0},
                    "expected": "ISO 8601 text of the date / time", "observed": [native, text, single]}
    # main clause: date cells in both date systems of the workbook (DATEMODE record: 0 = 1900-based, 1 = 1904-based); the expected text
    # is computed from the epoch, not by xlrd
    for mode, epoch in ((0, datetime.datetime(1899, 12, 30)), (1, datetime.datetime(1904, 1, 1))):
        if branch != "main":
            break

        class WBM:
            datemode = mode
        for v in (45000.0, 45000.75, 366.5):
            d = epoch + datetime.timedelta(days=v)
            want = d.strftime("%Y-%m-%d") if (d.hour, d.minute, d.second) == (0, 0, 0) else d.strftime("%Y-%m-%d %H:%M:%S")
            native, _t = x._get_cell_values(Cell(xlrd.XL_CELL_DATE, v), WBM())
            single = x._get_cell_value(Cell(xlrd.XL_CELL_DATE, v), WBM())
            for r in (native, single):
                if not (isinstance(r, str) and r.replace("T", " ") == want):
                    return {"target": "xls_extractor.py::_get_cell_values", "inputs": {"ctype": "XL_CELL_DATE", "value": v, "datemode": mode}, "expected": want,
                            "observed": [native, single], "detail": f"date serial {v} in a workbook with datemode={mode} ({epoch.year + (1 if mode == 0 else 0)} date system)"}
    for ct, v, want in ((xlrd.XL_CELL_EMPTY, "", None), (xlrd.XL_CELL_TEXT, "abc", "abc"), (xlrd.XL_CELL_NUMBER, 3.0, 3), (xlrd.XL_CELL_NUMBER, 2.5, 2.5),
                        (xlrd.XL_CELL_NUMBER, -4.0, -4), (xlrd.XL_CELL_BOOLEAN, 1, True), (xlrd.XL_CELL_BOOLEAN, 0, False), (xlrd.XL_CELL_DATE, 45000.0, "2023-03-15"),
                        (xlrd.XL_CELL_DATE, 45000.75, "2023-03-15 18:00:00")):
        if branch != "main":
            break
        native, _t = x._get_cell_values(Cell(ct, v), WB())
        single = x._get_cell_value(Cell(ct, v), WB())
        okd = (lambda r: same(r, want) or (isinstance(want, str) and isinstance(r, str) and r.replace("T", " ") == want))
        if not okd(native) or not okd(single):
            return {"target": "xls_extractor.py::_get_cell_values", "inputs": {"ctype": ct, "value": v}, "expected": want, "observed": [native, single]}
    return None


def search_xlsx_values():
    from sharepoint2text.parsing.extractors.ms_modern.xlsx_extractor import _get_cell_value
    for v in (None, "a", 3, 2.5, True, False, datetime.timedelta(hours=1), "#DIV/0!", SAMPLE_DT, SAMPLE_DT.date(), SAMPLE_DT.time(),
              0.30000000000000004, 1 / 3, 1234567.123456789, -2.5e-17, 1e22, 0.1 + 0.7, 2 ** 53 + 2.0, -0.0, 10 ** 20, -7, ""):
        want = v.isoformat() if isinstance(v, (datetime.datetime, datetime.date, datetime.time)) else v
        r = _get_cell_value(v)
        if isinstance(v, datetime.timedelta) and r == str(v):
            continue        # a duration may come back as its text form
        if not same(r, want) or type(r) is not type(want):
            return {"target": "xlsx_extractor.py::_get_cell_value", "inputs": {"cell_value": repr(v)}, "expected": repr(want), "observed": repr(r)}
    return None


# merged regions of a DrawingML table (gridSpan + hMerge / rowSpan + vMerge continuation cells) and explicit-default attributes
PPTX_MERGED = [[T([[["p"], ["hm"], ["p"]], [["p"], ["p"], ["p"]]])], [T([[["p"], ["p"]], [["vm"], ["p"]]])], [T([[["h0", "p"], ["p"]]])], [T([[["p"], ["hm"]], [["vm"], ["p"]]])]]
# paragraphs whose runs are wrapped (hyperlink) / that are a bare paragraph mark, alone and between text paragraphs
DOCX_RUNS = [[T([[["h"]]])], [T([[["p", "m", "p"]]])], [T([[["p", "h"], ["m"]]])], [T([[["h", "m"]], [["p"]]])]]


def search_shapes(obligation, skip_known=False):
    """small native scope for a bounded obligation without a witness (skip_known: leave out the constructs of the recorded
    known findings -- nested tables, html multi-paragraph cells, epub inline markup, first-row rewriting of xlsx / xls)"""
    fname = obligation.split("/")[1].split("::")[0]
    P = ["p"]
    inner = T([[P]])
    if skip_known:
        if fname in ("xlsx_extractor.py", "ods_extractor.py", "xls_extractor.py"):
            num = "i" if fname != "xls_extractor.py" else "F"
            shapes = ([[["s", "s"]], [["s"]]] if fname != "xls_extractor.py" else []) + ([{"copies": 2, "rows": [["s", "s"], ["s", num]]}] if fname != "ods_extractor.py" else []) + [[["s", "s"], ["s", num]], [["s"], ["b"]], [["s", "s"], ["N", "f"]], [["s", "s"], ["N", "N"], ["s", "N"]], [["s", "s"], ["s", "s"], [num, "s"]]]
        else:
            shapes = [[T([[P]])], [T([[P, P], [P, P]])], [T([[[]], [P]])], [T([[P], [P, P]])], [T([[P]]), T([[P]])], [T([[P]]), "p", T([[P, P]])], [T([[P], [P]], 1)], [T([[P, P]]), T([[P], [P]]), T([[P]])],
                      [T([[P, P]]), dict(T([[P, P]]), like="b0")], [T([[P]]), dict(T([[P]]), like="b0"), dict(T([[P]]), like="b0")]]
            if fname not in ("html_extractor.py",):
                shapes.append([T([[["p", "p"], P]])])
            if fname in ("html_extractor.py", "epub_extractor.py"):
                shapes += [[dict(T([[P, P]]), wrap=w), T([[P]])] for w in (["div"], ["font", "center"], ["a", "span"], ["b", "i"])]
            if fname == "pptx_extractor.py":
                shapes = [[b for b in s_ if is_table(b)] for s_ in shapes if not any(is_table(b) and b["hdr"] for b in s_)]
                shapes += PPTX_MERGED
            if fname == "docx_extractor.py":
                shapes += DOCX_RUNS
            if fname == "odp_extractor.py":
                shapes = [s_ for s_ in shapes if len([b for b in s_ if is_table(b)]) >= 1 and not any("like" in b for b in s_ if is_table(b))]
            if fname == "odp_extractor.py":
                shapes += [{"doc": [T([[P]]), T([[P, P]])], "positions": "equal"}, {"doc": [T([[P]]), T([[P, P]])], "positions": "none"}]
            if fname in ("pptx_extractor.py", "odp_extractor.py", "epub_extractor.py"):
                shapes += [{"units": [[T([[P, P]])], [T([[P]])]]}, {"units": [[T([[P]])], [T([[P]])], [T([[P], [P]])]]}]
        for sh in shapes:
            bad, detail, got, want = replay_shape(obligation, sh)
            if bad:
                return {"target": obligation, "inputs": {"shape": sh}, "expected": want, "observed": got, "detail": detail}
        return None
    if fname in ("xlsx_extractor.py", "ods_extractor.py", "xls_extractor.py"):
        shapes = [[["s"]], [["s", "s"], ["s", "i" if fname != "xls_extractor.py" else "F"]], [["s", "N"], ["s", "s"]], [["N", "s"], ["s", "s"]], [["s", "="], ["s", "s"]],
                  [["s"], ["b"]], [["s", "s"], ["N", "f"]], [["s", "s"], ["N", "N"], ["s", "N"]]]
        if fname == "xlsx_extractor.py":
            shapes += [[["i"], ["d"]], [["s", "s"], ["d", "i"]]]
    else:
        shapes = [[T([[P]])], [T([[P, P], [P, P]])], [T([[["p", "p"]]])], [T([[[]], [P]])], [T([[P], [P, P]])], [T([[P]]), T([[P]])], [T([[P]]), "p", T([[P, P]])],
                  [T([[[inner]]])], [T([[["p", inner]], [P]])], [T([[P], [P]], 1)], [T([[P, P]]), dict(T([[P, P]]), like="b0")]]
        if fname in ("html_extractor.py", "epub_extractor.py"):
            shapes.append([T([[["s"]]])])
            shapes += [[dict(T([[P, P]]), wrap=w)] for w in (["div"], ["font", "center"], ["a", "span"], ["b", "i"], ["center"])]
            shapes += [[T([[["/"], P]])], [T([[P, ["/"]], [["/"], P]], 1)], [T([[["/"]]])]]
        if fname == "pptx_extractor.py":
            shapes = [s for s in shapes if len(s) == 1 and not any(is_table(i) for r in s[0]["rows"] for c in r for i in c) and not s[0]["hdr"]]
            shapes += PPTX_MERGED
        if fname == "docx_extractor.py":
            shapes += DOCX_RUNS
        if fname == "odp_extractor.py":
            shapes = [s for s in shapes if len(s) == 1]
    for sh in shapes:
        bad, detail, got, want = replay_shape(obligation, sh)
        if bad:
            return {"target": obligation, "inputs": {"shape": sh}, "expected": want, "observed": got, "detail": detail}
    return None


def find(req):
    if "batch" in req:
        out = []
        for r in req["batch"]:
            try:
                out.append(find(r))
            except Exception as e:  # noqa
                import traceback
                out.append({"reproduced": False, "note": "replayer crashed: " + traceback.format_exc()[-800:]})
        return {"reproduced": any(x.get("reproduced") for x in out), "results": out}
    ob = req.get("obligation", "")
    w = req.get("witness") or {}
    if req.get("known_finding") and isinstance(w, dict) and w.get("native"):
        return native_finding(w)
    if isinstance(w, dict) and "shape" in w and "/bounded#" in ob:
        bad, detail, got, want = replay_shape(ob, w["shape"])
        if bad:
            return {"reproduced": True, "target": ob, "inputs": {"shape": w["shape"]}, "expected": want, "observed": got, "detail": detail}
        r = search_rtf() if "rtf_extractor.py" in ob else search_shapes(ob)
        if not r and "ods_extractor.py" in ob and "cell-holds" in ob:
            r = search_ods_values()
        if r:
            return dict(r, reproduced=True)
        return {"reproduced": False, "note": "the witness shape and the small native scope satisfy the clause natively", "shape": w["shape"], "observed": got}
    if "/bounded#" in ob:
        r = search_rtf() if "rtf_extractor.py" in ob else search_shapes(ob)
        return dict(r, reproduced=True) if r else {"reproduced": False, "note": "small native scope satisfies the clause"}
    if "ods_extractor.py::_extract_cell_value" in ob:
        r = search_ods_values()
        return dict(r, reproduced=True) if r else {"reproduced": False, "note": "typed ODS literals (dates, date-times, times, booleans, numbers) come back unchanged natively"}
    if "/call-site#" in ob and "rtf_extractor.py" not in ob:
        # a call site that hands the walker's result on was not recognised: run the public reader end to end
        fname = ob.split("/")[1].split("::")[0]
        for clause in ("tables-in-document-order-none-lost-none-invented", "rows-and-cells-are-the-direct-ones", "cell-holds-its-own-text"):
            r = search_shapes(f"C13/{fname}::reader/bounded#{clause}", skip_known=True)
            if r:
                return dict(r, reproduced=True)
        return {"reproduced": False, "note": "the public reader returns the source grids on the native scope"}
    if "rtf_extractor.py" in ob:
        r = search_rtf()
        return dict(r, reproduced=True) if r else {"reproduced": False, "note": "RTF tables (rows newline-separated / back to back, several layouts) agree natively"}
    if "pptx_extractor.py::_extract_table_from_graphic_frame" in ob:
        # symbolic-shape obligation (invariants / ensures): look for any clause of the grid spec failing natively
        for clause in ("rows-and-cells-are-the-direct-ones", "cell-holds-its-own-text", "tables-in-document-order"):
            r = search_shapes("C13/pptx_extractor.py::_extract_table_from_graphic_frame/bounded#" + clause)
            if r:
                return dict(r, reproduced=True)
        return {"reproduced": False, "note": "pptx grids agree natively on the small scope"}
    if "get_dim" in ob or "get_table" in ob:
        r = search_dims()
        return dict(r, reproduced=True) if r else {"reproduced": False, "note": "get_dim/get_table agree with the spec on the native scope"}
    if "xls_extractor.py" in ob:
        branch = "failed" if "cannot-convert" in ob else ("time" if "time-only" in ob else "main")
        r = search_xls_values(branch)
        return dict(r, reproduced=True) if r else {"reproduced": False, "note": "xls typed values agree natively"}
    if "xlsx_extractor.py::_get_cell_value" in ob:
        r = search_xlsx_values()
        return dict(r, reproduced=True) if r else {"reproduced": False, "note": "xlsx typed values agree natively"}
    return {"reproduced": False, "note": "no native search for this obligation"}


def native_finding(w):
    kind = w["native"]
    if kind == "xls-date":
        r = search_xls_values(w["branch"])
        return dict(r, reproduced=True) if r else {"reproduced": False}
    return {"reproduced": False, "note": "unknown native finding"}


def rerun(stored):
    return find({"obligation": stored.get("obligation", ""), "witness": stored.get("inputs") if isinstance(stored.get("inputs"), dict) and "shape" in stored.get("inputs", {}) else None})


# ---------------------------------------------------- validation of the models --
def self_check():
    """the assumed models against the real libraries (ElementTree, str, xlrd constants)"""
    import xml.etree.ElementTree as ET
    problems = []
    root = ET.fromstring('<a xmlns:n="u"><n:b k="v">t<n:c/><n:b/></n:b><n:d><n:b/></n:d><n:b/></a>')
    if [e.tag for e in root.iter("{u}b")] != ["{u}b"] * 4 or len(root.findall("{u}b")) != 2 or len(root.findall("n:d/n:b", {"n": "u"})) != 1:
        problems.append("ElementTree iter/findall model")
    if root.find("{u}zz") is not None or root.find("{u}b").get("k") != "v" or root.find("{u}b").get("zz", "d") != "d" or [c.tag for c in root] != ["{u}b", "{u}d", "{u}b"]:
        problems.append("ElementTree find/get/children model")
    if next(root.iter("{u}d"), None) is None or next(root.iter("{u}q"), None) is not None:
        problems.append("next(iter) model")
    for sample in ("  a  b\n c ", "", " ", "x", "a\tb"):
        if " ".join(sample.split()) != re.sub(r"\s+", " ", sample.strip()):
            problems.append("split/join = strip + collapse")
    import xlrd
    if [xlrd.XL_CELL_EMPTY, xlrd.XL_CELL_TEXT, xlrd.XL_CELL_NUMBER, xlrd.XL_CELL_DATE, xlrd.XL_CELL_BOOLEAN, xlrd.XL_CELL_ERROR, xlrd.XL_CELL_BLANK] != list(range(7)):
        problems.append("xlrd constants")
    return problems


if __name__ == "__main__":
    import json
    import sys
    sys.path.insert(0, os.environ.get("VERIF_REPO", "/repo"))
    print("model self-check:", self_check() or "ok")
    P = ["p"]
    inner = T([[P]])
    for fname, shapes in (("docx_extractor.py", [[T([[P, ["p", "p"]], [[], P]])], [T([[["p", inner]]])], [T([[P]]), T([[P]])]]),
                          ("odt_extractor.py", [[T([[P, P], [P, P]], 1)], [T([[["p", inner]]])]]),
                          ("odp_extractor.py", [[T([[P, P], [P]], 1)]]),
                          ("pptx_extractor.py", [[T([[P, []], [["p", "p"], P]])]]),
                          ("html_extractor.py", [[T([[P, ["p", "p"]]], 1)], [T([[[inner]]])], [T([[["s"]]])]]),
                          ("epub_extractor.py", [[T([[P, ["p", "p"]]], 1)], [T([[[inner]]])], [T([[["s"]]])]]),
                          ("xlsx_extractor.py", [[["s", "s"], ["i", "d"]], [["s", "N"], ["f", "b"]], [["i", "s"], ["s", "s"]]]),
                          ("ods_extractor.py", [[["s", "s"], ["i", "d"]], {"header_rows_wrapper": 1, "rows": [["s", "s"], ["f", "b"]]}]),
                          ("xls_extractor.py", [[["s", "s"], ["F", "b"]], [["s", "="], ["s", "f"]], [["s"]]])):
        for sh in shapes:
            got, want, dims = run_shape(fname, sh)
            print(fname, json.dumps(sh), "\n   got ", got, "\n   want", want, "dims", [(d.rows, d.columns) for d in dims])
