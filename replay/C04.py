"""Native replay for C04 (runs under /venv/bin/python on the REAL code, no z3).

`check_result` calls every accessor of a result and of every unit / image / table reachable from it and
checks the common interface exactly as the property states it.  `find` looks for a failing input for one
obligation: crafted documents for the site named in the obligation (RTF \\uN escapes, 7z name records,
HTML / mbox with a document-chosen codec, ODT / DOCX with a damaged picture member, ODF lengths), small-scope
enumeration of hand-built objects (tables, images, paths), and a sweep over all fixtures of the repository.
"""
import glob
import io
import os
import struct
import sys
import zipfile

REPO = os.environ.get("VERIF_REPO", "/repo")
RES = os.path.join(REPO, "sharepoint2text", "tests", "resources")
BS = b"\x5c"


# ------------------------------------------------------------------ checks --
def enc_fail(s):
    try:
        s.encode("utf-8")
        return None
    except UnicodeEncodeError as e:
        return f"{s[max(0, e.start - 3):e.end + 3]!a} is not encodable as UTF-8 ({e.reason})"


class Failures(list):
    def add(self, kind, where, detail, **kw):
        self.append(dict(kind=kind, where=where, detail=detail, **kw))


def call(F, where, fn, *a, **k):
    try:
        return True, fn(*a, **k)
    except Exception as e:  # noqa
        F.add("accessor-raises", where, f"{type(e).__name__}: {str(e)[:120]}", exc=type(e).__name__)
        return False, None


def check_str(F, where, v):
    if not isinstance(v, str):
        F.add("not-str", where, f"{type(v).__name__}")
        return
    bad = enc_fail(v)
    if bad:
        F.add("not-wf", where, bad)


def check_table(F, where, t):
    ok, tab = call(F, where + ".get_table()", t.get_table)
    ok2, dim = call(F, where + ".get_dim()", t.get_dim)
    if not (ok and ok2):
        return
    try:
        shape = (len(tab), max((len(r) for r in tab), default=0))
        got = (dim.rows, dim.columns)
    except Exception as e:  # noqa
        F.add("dim", where, f"shape not computable: {e}")
        return
    if shape != got:
        F.add("dim", where, f"get_dim()={got} but get_table() has shape {shape}", cls=type(t).__name__)
    for i, row in enumerate(tab):                     # cell texts are text of the result as well
        for j, cell in enumerate(row):
            if isinstance(cell, str) and enc_fail(cell):
                F.add("not-wf", f"{where}.get_table()[{i}][{j}]", enc_fail(cell))


def check_image(F, where, im):
    start = len(F)
    try:
        _check_image(F, where, im)
    finally:
        for f in F[start:]:
            f.setdefault("cls", type(im).__name__)


def _check_image(F, where, im):
    cls = type(im).__name__
    for name in ("get_content_type", "get_caption", "get_description"):
        ok, v = call(F, f"{where}.{name}()", getattr(im, name))
        if ok:
            check_str(F, f"{where}.{name}()", v)
    ok, md = call(F, where + ".get_metadata()", im.get_metadata)
    if ok:
        n = getattr(md, "image_number", None)
        if not (isinstance(n, int) and not isinstance(n, bool) and n >= 1):
            F.add("image-number", where, f"image_number={n!r}", cls=cls)
        u = getattr(md, "unit_number", None)
        if u is not None and not (isinstance(u, int) and u >= 1):
            F.add("unit-number", where, f"image unit_number={u!r}", cls=cls)
    for rep in range(2):                       # twice, with a read in between: position must be 0 again
        ok, b = call(F, where + ".get_bytes()", im.get_bytes)
        if not ok:
            return
        if not isinstance(b, io.BytesIO):
            F.add("bytes", where, f"get_bytes() returns {type(b).__name__}", cls=cls)
            return
        if b.tell() != 0:
            F.add("bytes", where, f"get_bytes() positioned at {b.tell()} (call {rep + 1})", cls=cls)
        data = b.read()
        payload = getattr(im, "data", getattr(im, "blob", None))
        if isinstance(payload, io.BytesIO):
            payload = payload.getvalue()
        if payload is None:
            payload = b""
        if data != payload:
            F.add("bytes", where, f"get_bytes() content differs from the stored payload ({len(data)} vs {len(payload)} bytes)", cls=cls)
        if hasattr(im, "size_bytes") and im.size_bytes != len(data):
            F.add("image-size", where, f"size_bytes={im.size_bytes} but the stream has {len(data)} bytes", cls=cls)


def check_file_metadata(F, where, md, path):
    import pathlib
    want_none = path is None
    vals = [getattr(md, f, "<missing>") for f in ("filename", "file_extension", "file_path", "folder_path")]
    if want_none:
        if any(v is not None for v in vals):
            F.add("path-metadata", where, f"no path given but {vals!r}")
        return
    p = pathlib.PurePath(path)
    if vals[0] != p.name or vals[1] != p.suffix:
        F.add("path-metadata", where, f"path {str(path)!r}: filename/extension {vals[:2]!r}, expected {(p.name, p.suffix)!r}")
    if vals[2] not in (str(p), str(pathlib.Path(path).resolve())) or vals[3] not in (str(p.parent), str(pathlib.Path(path).parent.resolve())):
        F.add("path-metadata", where, f"path {str(path)!r}: file_path/folder_path {vals[2:]!r}")
    for v in vals:
        if isinstance(v, str) and enc_fail(v) and not enc_fail(str(path)):
            F.add("not-wf", where, enc_fail(v))


def check_result(r, path="<unset>"):
    """All interface failures of one extraction result."""
    F = Failures()
    w = type(r).__name__
    ok, t = call(F, w + ".get_full_text()", r.get_full_text)
    if ok:
        check_str(F, w + ".get_full_text()", t)
    ok, md = call(F, w + ".get_metadata()", r.get_metadata)
    if ok and md is not None:
        if path != "<unset>":
            check_file_metadata(F, w + ".get_metadata()", md, path)
        for k, v in vars(md).items() if hasattr(md, "__dict__") else []:
            if isinstance(v, str):
                bad = enc_fail(v)
                if bad and k not in ("file_path", "folder_path", "filename"):
                    F.add("not-wf", f"{w}.get_metadata().{k}", bad)
    ok, units = call(F, w + ".iterate_units()", lambda: list(r.iterate_units()))
    for i, u in enumerate(units or []):
        uw = f"{w}.unit[{i}]"
        ok, t = call(F, uw + ".get_text()", u.get_text)
        if ok:
            check_str(F, uw + ".get_text()", t)
        ok, um = call(F, uw + ".get_metadata()", u.get_metadata)
        if ok:
            n = getattr(um, "unit_number", None)
            if not (isinstance(n, int) and not isinstance(n, bool) and n >= 1):
                F.add("unit-number", uw, f"unit_number={n!r}")
        ok, ims = call(F, uw + ".get_images()", u.get_images)
        for j, im in enumerate(ims or []):
            check_image(F, f"{uw}.image[{j}]", im)
        ok, tabs = call(F, uw + ".get_tables()", u.get_tables)
        for j, tb in enumerate(tabs or []):
            check_table(F, f"{uw}.table[{j}]", tb)
        call(F, uw + ".to_json()", u.to_json)
    ok, ims = call(F, w + ".iterate_images()", lambda: list(r.iterate_images()))
    for j, im in enumerate(ims or []):
        check_image(F, f"{w}.image[{j}]", im)
    ok, tabs = call(F, w + ".iterate_tables()", lambda: list(r.iterate_tables()))
    for j, tb in enumerate(tabs or []):
        check_table(F, f"{w}.table[{j}]", tb)
    return F


def extract(data, name, path="<same>"):
    import sharepoint2text
    ex = sharepoint2text.get_extractor(name)
    p = name if path == "<same>" else path
    return list(ex(io.BytesIO(data), p)), p


ARCHIVE_EXT = (".zip", ".7z", ".tar", ".gz", ".tgz", ".bz2", ".tbz2", ".xz", ".txz")


def failures_of(data, name, path="<same>"):
    res, p = extract(data, name, path)
    out = Failures()
    for r in res:
        # results of an archive carry the member's own `archive!/member` path (that mapping is C10's): the path clause is
        # checked on direct extractions only
        out.extend(check_result(r, "<unset>" if name.lower().endswith(ARCHIVE_EXT) else p))
    return out


# ------------------------------------------------------------- crafted input --
def rtf_with_units(units, full=True):
    """RTF whose body is A <\\uN?>... B; `full` adds a font table so that the main parser path is taken."""
    body = b"A" + b"".join(BS + b"u" + str(u if u < 32768 else u - 65536).encode() + b"?" for u in units) + b"B"
    if full:
        return b"{" + BS + b"rtf1" + BS + b"ansi" + BS + b"deff0 {" + BS + b"fonttbl{" + BS + b"f0 Arial;}}" + BS + b"pard " + body + BS + b"par}"
    return b"{" + BS + b"rtf1 " + body + b"}"


def rtf_cases(n=None):
    hi, lo = 0xD83D, 0xDE00
    cases = [("emoji as a surrogate pair", [hi, lo]), ("lone high surrogate", [hi]), ("lone low surrogate", [lo]), ("reversed pair", [lo, hi])]
    if n is not None and 0xD800 <= n <= 0xDFFF:
        cases.insert(0, (f"code unit {hex(n)} from the solver model", [n]))
    return cases


def rtf_documents(units):
    """The same run of \\uN escapes in the contexts that reach different strippers: body text (full stripper), after ordinary BMP
    escapes in one run, inside a table cell and a footnote (simple stripper), and a header-less document (fallback path)."""
    run = b"".join(BS + b"u" + str(u if u < 32768 else u - 65536).encode() + b"?" for u in units)
    head = b"{" + BS + b"rtf1" + BS + b"ansi" + BS + b"deff0 {" + BS + b"fonttbl{" + BS + b"f0 Arial;}}"
    yield "body", head + BS + b"pard A" + run + b"B" + BS + b"par}"
    yield "after BMP escapes", head + BS + b"pard A" + BS + b"u228?" + run + b"B" + BS + b"par}"
    yield "table cell", head + BS + b"trowd" + BS + b"cellx3000" + BS + b"cellx6000 x" + run + b"y" + BS + b"cell z" + BS + b"cell" + BS + b"row" + BS + b"pard after" + BS + b"par}"
    yield "footnote", head + BS + b"pard T{" + BS + b"footnote n" + run + b"m}" + BS + b"par}"
    yield "no font table", b"{" + BS + b"rtf1 A" + run + b"B}"


def find_rtf(site_fn, n=None):
    """Directed search over the \\uN construct: solver witness first, then pairs / lone surrogates, each in every context; the
    function named by the obligation is also called directly when it is a module-level str -> str helper or a stripper method."""
    from sharepoint2text.parsing.extractors.ms_legacy import rtf_extractor as rx
    for label, units in rtf_cases(n):
        run_text = "".join("\\u" + str(u if u < 32768 else u - 65536) + "?" for u in units)
        # function-level: the site's own function on the bare construct
        direct = []
        fn = getattr(rx, site_fn.split(".")[-1], None) if "." not in site_fn else None
        if callable(fn):
            direct.append((f"rtf_extractor.py::{site_fn}", lambda t=run_text, fn=fn: fn(t), run_text))
        if site_fn.endswith("_strip_rtf_simple"):
            text = "{\\rtf1 A" + run_text + "B}"
            direct.append(("rtf_extractor.py::_RtfParser._strip_rtf_simple", lambda t=text: rx._RtfParser(b"")._strip_rtf_simple(t), text))
        for target, thunk, arg in direct:
            try:
                out = thunk()
            except Exception:  # noqa
                continue
            bad = enc_fail(out) if isinstance(out, str) else None
            if bad:
                e2e = None
                for ctx, data in rtf_documents(units):
                    try:
                        wf = [f for f in failures_of(data, "a.rtf") if f["kind"] == "not-wf"]
                    except Exception:  # noqa
                        wf = []
                    if wf:
                        e2e = {"context": ctx, "rtf": data.decode("ascii"), "observed": f"{wf[0]['where']}: {wf[0]['detail']}"}
                        break
                return {"reproduced": True, "target": target, "inputs": {"text": arg, "case": label, "end_to_end": e2e},
                        "expected": "text encodable as UTF-8 (pair combined into one code point, lone surrogates replaced)", "observed": bad}
        for ctx, data in rtf_documents(units):
            try:
                F = failures_of(data, "a.rtf")
                res, _p = extract(data, "a.rtf")
            except Exception:  # noqa
                continue
            wf = [f for f in F if f["kind"] == "not-wf"]
            for r in res:                                   # table cells are text too
                for tb in r.iterate_tables():
                    for row in tb.get_table():
                        for cell in row:
                            if isinstance(cell, str) and enc_fail(cell):
                                wf.append({"where": "table cell", "detail": enc_fail(cell)})
            if wf:
                return {"reproduced": True, "target": "sharepoint2text read_rtf", "inputs": {"rtf": data.decode("ascii"), "case": label, "context": ctx},
                        "expected": "every text of the result encodable as UTF-8", "observed": f"{wf[0]['where']}: {wf[0]['detail']}"}
    return {"reproduced": False, "note": "RTF \\uN escapes: all crafted cases encodable in every context"}


def sevenzip_files_info(units):
    """Files-info record of a 7z header with one file whose name consists of the given UTF-16 code units."""
    name = b"".join(struct.pack("<H", u) for u in units) + b"\x00\x00"
    prop = b"\x00" + name                                  # external = 0, names
    return bytes([1]) + bytes([0x11, len(prop)]) + prop + bytes([0x00])


def find_sevenzip(n=None):
    from sharepoint2text.parsing.extractors.util import sevenzip as sz
    cases = [("name with an emoji (surrogate pair)", [0x61, 0xD83D, 0xDE00, 0x2E, 0x74, 0x78, 0x74]), ("name with a lone surrogate", [0x61, 0xD800, 0x2E, 0x74, 0x78, 0x74])]
    if n is not None and 0xD800 <= n <= 0xDFFF:
        cases.insert(0, (f"name with code unit {hex(n)} from the solver model", [0x61, n]))
    for label, units in cases:
        r = sz.SevenZipReader.__new__(sz.SevenZipReader)
        r._stream = io.BytesIO(sevenzip_files_info(units))
        r._archive_file = r._stream
        r._files, r._folders, r._file_sizes, r._folder_to_files = [], [], [], {}
        r._pack_positions, r._pack_sizes, r._header_offset = [], [], 0
        try:
            r._parse_files_info()
        except Exception as e:  # noqa
            continue
        if not r._files:
            continue
        bad = enc_fail(r._files[0].filename)
        if bad:
            return {"reproduced": True, "target": "sevenzip.py::SevenZipReader._parse_files_info", "inputs": {"utf16_code_units": units, "case": label},
                    "expected": "member name encodable as UTF-8 (UTF-16 pairs combined, lone surrogates replaced)", "observed": bad}
    return {"reproduced": False, "note": "7z names: all crafted cases encodable"}


def sample_from_pattern(pattern, fill):
    """A string matched by `pattern` whose capturing groups contain `fill` (directed search over the construct the
    obligation is about): literals as they are, repeats at their minimum, sets by their first member."""
    import re
    P, C = re._parser, re._constants

    def gen(sub):
        out = []
        for op, av in sub:
            if op is C.LITERAL:
                out.append(chr(av))
            elif op is C.SUBPATTERN:
                out.append(fill if av[0] is not None else gen(av[3]))
            elif op in (C.MAX_REPEAT, C.MIN_REPEAT):
                out.append(gen(av[2]) * max(av[0], 0))
            elif op is C.IN:
                first = next((x for x in av if x[0] in (C.LITERAL, C.RANGE)), None)
                out.append(chr(first[1]) if first and first[0] is C.LITERAL else (chr(first[1][0]) if first else "0"))
            elif op is C.BRANCH:
                out.append(gen(av[1][0]))
            elif op is C.ANY:
                out.append("a")
            elif op is C.CATEGORY:
                out.append("0" if av is C.CATEGORY_DIGIT else ("a" if av is C.CATEGORY_WORD else " "))
        return "".join(out)
    try:
        return gen(P.parse(pattern))
    except Exception:  # noqa
        return None


def find_text_helper(rel, fn_name, n=None):
    """Function-level replay for a chr site inside a module-level str -> str helper: the helper is called on strings built from
    the module's own compiled patterns with the solver's code unit (and a few surrogates) written in hex / decimal."""
    import importlib
    import inspect
    import re
    if not rel or "." in fn_name:
        return {"reproduced": False, "note": "no function-level replay for this site"}
    try:
        mod = importlib.import_module(rel[:-3].replace("/", "."))
        fn = getattr(mod, fn_name)
        params = [p for p in inspect.signature(fn).parameters.values() if p.default is inspect.Parameter.empty]
    except Exception as e:  # noqa
        return {"reproduced": False, "note": f"helper not importable: {e}"}
    if len(params) != 1:
        return {"reproduced": False, "note": "helper does not take a single argument"}
    units = [u for u in (n, 0xD83D, 0xDE00, 0xD800, 0xDFFF) if isinstance(u, int) and 0xD800 <= u <= 0xDFFF]
    pats = [v.pattern for v in vars(mod).values() if isinstance(v, re.Pattern) and isinstance(v.pattern, str) and v.groups >= 1]
    for u in units:
        for fill in (f"{u:04X}", f"{u:04x}", str(u), str(u - 65536), f"{u:X}"):
            for pat in pats:
                text = sample_from_pattern(pat, fill)
                if not text:
                    continue
                for arg in (text, "a" + text + "b"):
                    try:
                        out = fn(arg)
                    except Exception:  # noqa
                        continue
                    bad = enc_fail(out) if isinstance(out, str) else None
                    if bad:
                        return {"reproduced": True, "target": f"{rel.split('/')[-1]}::{fn_name}", "inputs": {"text": arg, "code_unit": hex(u), "pattern": pat},
                                "expected": "a str encodable as UTF-8", "observed": bad}
    return {"reproduced": False, "note": f"{fn_name}: no surrogate produced on {len(pats)} pattern-derived inputs"}


UNSAFE_CODEC_BODIES = [("unicode_escape", b"A" + BS + b"ud83dB"), ("raw_unicode_escape", b"A" + BS + b"ud83dB"), ("utf-7", b"A+2D0-B")]


def find_html():
    for cs, body in UNSAFE_CODEC_BODIES:
        data = b'<html><head><meta charset="' + cs.encode() + b'"><title>t</title></head><body><p>' + body + b"</p></body></html>"
        wf = [f for f in failures_of(data, "a.html") if f["kind"] == "not-wf"]
        if wf:
            return {"reproduced": True, "target": "html_extractor.py::read_html", "inputs": {"html": data.decode("ascii"), "declared_charset": cs},
                    "expected": "get_full_text() encodable as UTF-8", "observed": f"{wf[0]['where']}: {wf[0]['detail']}"}
    return {"reproduced": False, "note": "html: document-chosen codecs give encodable text"}


def mbox_message(cs, body, header=True, html=False, multipart=False):
    subj = b"=?" + cs.encode() + b"?q?A=5Cud83dB?=" if header else b"plain"
    head = b"From a@b Thu Jan  1 00:00:00 2020\nFrom: a@b\nTo: c@d\nSubject: " + subj + b"\nDate: Thu, 1 Jan 2020 00:00:00 +0000\n"
    ctype = b"text/html" if html else b"text/plain"
    if multipart:
        return head + b'Content-Type: multipart/alternative; boundary="BB"\n\n--BB\nContent-Type: ' + ctype + b"; charset=" + cs.encode() + b"\n\n" + body + b"\n--BB--\n\n"
    return head + b"Content-Type: " + ctype + b"; charset=" + cs.encode() + b"\n\n" + body + b"\n\n"


def find_mbox(fn=None, ordinal=None):
    """Messages declaring an unsafe codec in an RFC 2047 header word, a single-part body, a multipart plain and html part."""
    variants = []
    for cs, body in UNSAFE_CODEC_BODIES:
        variants.append((cs, mbox_message(cs, b"x", header=True)))
        variants.append((cs, mbox_message(cs, body, header=False, multipart=True)))
        variants.append((cs, mbox_message(cs, body, header=False, multipart=True, html=True)))
        variants.append((cs, mbox_message(cs, body, header=False)))
    for cs, data in variants:
        try:
            F = failures_of(data, "a.mbox")
            res, _p = extract(data, "a.mbox")
        except Exception:  # noqa
            continue
        extra = []
        for r in res:
            for k in ("subject", "body_plain", "body_html"):
                v = getattr(r, k, None)
                if isinstance(v, str) and enc_fail(v):
                    extra.append({"kind": "not-wf", "where": f"EmailContent.{k}", "detail": enc_fail(v)})
        wf = [f for f in list(F) + extra if f["kind"] == "not-wf"]
        if wf:
            return {"reproduced": True, "target": "mbox_email_extractor.py (document-declared charset)", "inputs": {"mbox": data.decode("ascii"), "declared_charset": cs},
                    "expected": "subject / body encodable as UTF-8", "observed": f"{wf[0]['where']}: {wf[0]['detail']}"}
    return {"reproduced": False, "note": "mbox: document-chosen codecs give encodable text"}


def corrupt_crc(data, pred):
    """Flip the stored CRC-32 of the matching ZIP members (local header and central directory): the archive opens, the
    member cannot be read."""
    zf = zipfile.ZipFile(io.BytesIO(data))
    b = bytearray(data)
    hit = []
    for zi in zf.infolist():
        if pred(zi.filename):
            b[zi.header_offset + 14] ^= 0xFF
            hit.append(zi.filename)
    pos = 0
    raw = bytes(b)
    while True:
        pos = raw.find(b"PK\x01\x02", pos)
        if pos < 0:
            break
        nlen = struct.unpack("<H", raw[pos + 28:pos + 30])[0]
        name = raw[pos + 46:pos + 46 + nlen].decode("utf-8", "replace")
        if pred(name):
            b[pos + 16] ^= 0xFF
        pos += 4
    return bytes(b), hit


_PIC = lambda n: n.startswith("Pictures/") or "media/" in n   # noqa: E731
DAMAGED = [("open_office/image_extraction.odt", _PIC, "odt_extractor"), ("open_office/headings.odt", _PIC, "odt_extractor"),
           ("modern_ms/headings.docx", _PIC, "docx_extractor"), ("open_office/image_extraction.ods", _PIC, "ods_extractor"),
           ("open_office/image_extraction.odp", _PIC, "odp_extractor"), ("open_office/drawing.odg", _PIC, "odg_extractor"),
           ("modern_ms/pptx_formula_image.pptx", _PIC, "pptx_extractor"), ("modern_ms/image_in_excel.xlsx", _PIC, "xlsx_extractor")]


def find_damaged_member(file_key, kinds=("image-number",)):
    for rel, pred, key in DAMAGED:
        if key not in file_key:
            continue
        f = os.path.join(RES, rel)
        if not os.path.exists(f):
            continue
        data, hit = corrupt_crc(open(f, "rb").read(), pred)
        try:
            F = failures_of(data, f)
        except Exception:  # noqa
            continue
        bad = [x for x in F if x["kind"] in kinds]
        if bad:
            return {"reproduced": True, "target": f"sharepoint2text extractor for {rel.split('.')[-1]}",
                    "inputs": {"fixture": "tests/resources/" + rel, "mutation": "CRC-32 of picture members flipped (local header + central directory)", "members": hit},
                    "expected": "every image: number >= 1, size_bytes == len(get_bytes()), accessors total", "observed": f"{bad[0]['where']}: {bad[0]['detail']}"}
    return {"reproduced": False, "note": "damaged picture members: interface honoured"}


def garble_pictures(path, pred):
    """The document with every picture member replaced by bytes of no known image format and every drawing extent (cx / cy,
    svg:width / svg:height) zeroed: the readers have to fall back to whatever they do when dimensions are unknown."""
    import re
    src = zipfile.ZipFile(path)
    buf = io.BytesIO()
    hit = []
    with zipfile.ZipFile(buf, "w", zipfile.ZIP_DEFLATED) as z:
        for zi in src.infolist():
            data = src.read(zi.filename)
            if pred(zi.filename) and not zi.filename.endswith("/"):
                data = b"\x00\x01not-an-image\x02" + bytes(range(40))
                hit.append(zi.filename)
            elif zi.filename.endswith(".xml") and ("drawing" in zi.filename or zi.filename in ("content.xml", "word/document.xml") or "slides/slide" in zi.filename):
                data = re.sub(rb'\b(cx|cy)="\d+"', lambda m: m.group(1) + b'="0"', data)
            z.writestr(zi, data)
    return buf.getvalue(), hit


def find_garbled_pictures(file_key, kinds=("accessor-raises",)):
    for rel, pred, key in DAMAGED:
        if key not in file_key and "data_types" not in file_key:
            continue
        f = os.path.join(RES, rel)
        if not os.path.exists(f):
            continue
        try:
            data, hit = garble_pictures(f, pred)
            F = failures_of(data, f)
        except Exception:  # noqa
            continue
        bad = [x for x in F if x["kind"] in kinds]
        if bad:
            return {"reproduced": True, "target": f"sharepoint2text extractor for {rel.split('.')[-1]}",
                    "inputs": {"fixture": "tests/resources/" + rel, "mutation": "picture members replaced by bytes of no known image format, drawing extents zeroed", "members": hit},
                    "expected": "every image: accessors total, number >= 1, size_bytes == len(get_bytes())", "observed": f"{bad[0]['where']}: {bad[0]['detail']}"}
    return {"reproduced": False, "note": "garbled pictures: interface honoured"}


# picture member names a package may legally carry: an extension no table knows, none at all, upper case, dots in the stem, a
# vector / metafile format, a name with blanks and non-ASCII letters (what the content type is guessed from)
PICTURE_NAMES = ["{stem}.q7z9", "{stem}", "{stem}.PNG", "{stem}.v1.2", "{stem}.svm", "{stem}.wmf", "{stem}.emf", "{stem}.webp", "{stem}.jfif", "b\u00efld {stem}.png", "{stem}."]


def rename_pictures(path, pred, pattern):
    """The document with every picture member renamed after `pattern` and every reference in the XML parts (href, manifest,
    relationships, content types default extensions stay) rewritten."""
    src = zipfile.ZipFile(path)
    names = {}
    for k, zi in enumerate(i for i in src.infolist() if pred(i.filename) and not i.filename.endswith("/")):
        d, base = zi.filename.rsplit("/", 1)
        names[zi.filename] = d + "/" + pattern.format(stem=f"pic{k}")
    if not names:
        return None, []
    buf = io.BytesIO()
    with zipfile.ZipFile(buf, "w", zipfile.ZIP_DEFLATED) as z:
        for zi in src.infolist():
            data = src.read(zi.filename)
            if zi.filename in names:
                z.writestr(names[zi.filename], data)
                continue
            if zi.filename.endswith((".xml", ".rels")):
                for old, new in names.items():
                    for o, n in ((old, new), (old.split("/", 1)[-1] if old.startswith(("word/", "ppt/", "xl/")) else None, new.split("/", 1)[-1])):
                        if o:
                            data = data.replace(o.encode("utf-8"), n.replace("&", "&amp;").encode("utf-8"))
            z.writestr(zi, data)
    return buf.getvalue(), sorted(names.values())


def find_renamed_pictures(file_key, kinds=("accessor-raises", "not-str")):
    tried = 0
    for rel, pred, key in DAMAGED:
        if key not in file_key and "data_types" not in file_key and "_shared" not in file_key:
            continue
        f = os.path.join(RES, rel)
        if not os.path.exists(f):
            continue
        for pattern in PICTURE_NAMES:
            try:
                data, hit = rename_pictures(f, pred, pattern)
                if data is None:
                    break
                F = failures_of(data, f)
            except Exception:  # noqa -- a package the extractor refuses as a whole is no result to judge
                continue
            tried += 1
            bad = [x for x in F if x["kind"] in kinds]
            if bad:
                return {"reproduced": True, "target": f"sharepoint2text extractor for {rel.split('.')[-1]}",
                        "inputs": {"fixture": "tests/resources/" + rel, "mutation": f"picture members renamed to {pattern!r} (references rewritten)", "members": hit},
                        "expected": "every image: accessors total, get_content_type() is a str", "observed": f"{bad[0]['where']}: {bad[0]['detail']}"}
    return {"reproduced": False, "note": f"{tried} documents with renamed picture members: interface honoured"}


def blip_stream():
    """An OfficeArt `Pictures` stream with one record of every BLIP kind the readers know (PNG, JPEG, DIB, EMF, WMF)."""
    from sharepoint2text.parsing.extractors.util import image_utils as iu
    png = b"\x89PNG\r\n\x1a\n" + struct.pack(">I", 13) + b"IHDR" + struct.pack(">IIBBBBB", 2, 3, 8, 2, 0, 0, 0) + b"\0\0\0\0" + struct.pack(">I", 0) + b"IEND\xaeB`\x82"
    jpeg = b"\xff\xd8\xff\xe0\x00\x10JFIF\x00\x01\x01\x00\x00\x01\x00\x01\x00\x00\xff\xc0\x00\x0b\x08\x00\x03\x00\x02\x01\x01\x11\x00\xff\xd9"
    dib = struct.pack("<IiiHHIIiiII", 40, 2, 2, 1, 24, 0, 16, 2835, 2835, 0, 0) + bytes(range(16))
    recs = [(iu.BLIP_TYPE_PNG, iu.BLIP_INSTANCE_PNG, png), (iu.BLIP_TYPE_JPEG, iu.BLIP_INSTANCE_JPEG, jpeg), (iu.BLIP_TYPE_DIB, 0x7A8, dib),
            (iu.BLIP_TYPE_EMF, 0x3D4, b"\x01\x00\x00\x00emf-bytes" + bytes(30)), (iu.BLIP_TYPE_WMF, 0x216, b"\xd7\xcd\xc6\x9awmf-bytes" + bytes(30))]
    out = b""
    for typ, inst, payload in recs:
        body = bytes(16) + b"\xff" + payload                       # 16-byte UID + tag, then the picture
        out += struct.pack("<HHI", (inst << 4) | 0, typ, len(body)) + body
    return out, [r[0] for r in recs]


class FakeOle:
    def __init__(self, streams):
        self.streams = streams

    def exists(self, name):
        return name in self.streams

    def openstream(self, name):
        return io.BytesIO(self.streams[name])


def find_blip(ob):
    """Function-level replay of the OfficeArt picture readers on a hand-built stream covering every BLIP kind."""
    data, kinds = blip_stream()
    try:
        if "ppt_extractor" in ob:
            from sharepoint2text.parsing.extractors.ms_legacy import ppt_extractor as px
            images, target = px._extract_images_from_pictures_stream(FakeOle({"Pictures": data})), "ppt_extractor.py::_extract_images_from_pictures_stream"
        else:
            return {"reproduced": False, "note": "no BLIP replay for this reader"}
    except Exception as e:  # noqa
        return {"reproduced": False, "note": f"BLIP replay failed: {type(e).__name__}: {e}"}
    F = Failures()
    for i, im in enumerate(images):
        check_image(F, f"image[{i}]", im)
    bad = [f for f in F if f["kind"] in ("image-size", "bytes", "image-number", "accessor-raises", "not-str")]
    if bad:
        return {"reproduced": True, "target": target, "inputs": {"pictures_stream_hex": data.hex(), "blip_record_types": [hex(k) for k in kinds]},
                "expected": "every image: size_bytes == len(get_bytes()), number >= 1, accessors total", "observed": f"{bad[0]['where']}: {bad[0]['detail']}"}
    return {"reproduced": False, "note": f"BLIP stream with {len(kinds)} record kinds: {len(images)} images honour the interface"}


LENGTHS = ["9" * 400 + "cm", "9" * 400, "9" * 310 + "px", "1" + "0" * 330 + "mm", "1.5in", "", "x", "10", "1e400cm"]


def find_odf_length(target):
    from sharepoint2text.parsing.extractors import data_types as dt
    for s in LENGTHS:
        try:
            dt.OpenDocumentImage(width=s).get_metadata()
            dt.OpenDocumentImage(height=s).get_metadata()
        except Exception as e:  # noqa
            # end-to-end: an ODT whose frame carries that width
            e2e = odt_with_width(s)
            return {"reproduced": True, "target": target, "inputs": {"length": s if len(s) < 40 else f"'9' * {len(s) - 2} + {s[-2:]!r}", "end_to_end": e2e},
                    "expected": "accessor raises nothing (int or None)", "observed": f"{type(e).__name__}: {e}"}
    return {"reproduced": False, "note": "ODF lengths: no exception"}


def odt_with_width(width):
    """image_extraction.odt with svg:width of every frame replaced: does image.get_metadata() raise on the real extractor?"""
    import re
    f = os.path.join(RES, "open_office/image_extraction.odt")
    if not os.path.exists(f):
        return None
    src = zipfile.ZipFile(f)
    buf = io.BytesIO()
    with zipfile.ZipFile(buf, "w", zipfile.ZIP_DEFLATED) as z:
        for zi in src.infolist():
            data = src.read(zi.filename)
            if zi.filename == "content.xml":
                data = re.sub(rb'svg:width="[^"]*"', b'svg:width="' + width.encode() + b'"', data)
            z.writestr(zi, data)
    try:
        F = failures_of(buf.getvalue(), f)
    except Exception as e:  # noqa
        return f"extraction failed: {type(e).__name__}"
    bad = [x for x in F if x["kind"] == "accessor-raises"]
    return f"{bad[0]['where']}: {bad[0]['detail']}" if bad else "no accessor raised"


# ---------------------------------------------------------------- small scope --
TABLES = [[], [[]], [[1]], [[1, 2], [3]], [[1], [2, 3, 4]], [[], [1]], [[1, 2, 3], [], [4]]]


def find_table(cls_name):
    from sharepoint2text.parsing.extractors import data_types as dt
    cls = getattr(dt, cls_name)
    for t in TABLES:
        if cls_name == "XlsSheet":
            width = max((len(r) for r in t), default=0)
            data = [{f"c{i}": v for i, v in enumerate(r + [None] * (width - len(r)))} for r in t]
        else:
            data = t
        obj = cls(data=data)
        F = Failures()
        check_table(F, cls_name, obj)
        if F:
            return {"reproduced": True, "target": f"data_types.py::{cls_name}.get_dim", "inputs": {"data": data},
                    "expected": "get_dim() == (len(get_table()), longest row of get_table())", "observed": F[0]["detail"]}
    return {"reproduced": False, "note": f"{cls_name}: get_dim matches get_table on {len(TABLES)} small tables"}


RECORDS = [[], [{}], [{"a": 1}], [{"a": 1, "b": 2}], [{"a": 1, "b": 2}, {"a": 3, "b": 4}], [{"a": 1}, {"a": 2, "b": 3}], [{"a": 1, "b": 2, "c": 3}, {"a": 4}],
           [{"a": 1}, {"b": 2}, {"a": None, "c": ""}], [{"x": "1", "y": 2.5}, {"x": "", "y": None}, {"y": 3, "x": 4}, {}]]


def find_record_table(cls_name):
    """Shape postcondition of a table class whose rows are computed from records (XlsSheet): [] without records, else header row
    + one row per record, every row with one cell per key of the first record; raises nothing."""
    from sharepoint2text.parsing.extractors import data_types as dt
    cls = getattr(dt, cls_name)
    for data in RECORDS:
        try:
            t = cls(data=[dict(r) for r in data]).get_table()
        except Exception as e:  # noqa
            return {"reproduced": True, "target": f"data_types.py::{cls_name}.get_table", "inputs": {"data": data}, "expected": "no exception",
                    "observed": f"{type(e).__name__}: {e}"}
        want_rows = 0 if not data else len(data) + 1
        width = len(data[0]) if data else 0
        ok = isinstance(t, list) and len(t) == want_rows and all(isinstance(r, list) and len(r) == width for r in t)
        if not ok:
            return {"reproduced": True, "target": f"data_types.py::{cls_name}.get_table", "inputs": {"data": data},
                    "expected": f"{want_rows} rows of {width} cells (header + one row per record, one cell per key of the first record)",
                    "observed": f"shape {[len(r) if isinstance(r, list) else type(r).__name__ for r in t] if isinstance(t, list) else type(t).__name__}"}
    return {"reproduced": False, "note": f"{cls_name}.get_table: documented shape on {len(RECORDS)} small record lists"}


def image_instances(cls_name):
    from sharepoint2text.parsing.extractors import data_types as dt
    import dataclasses
    cls = getattr(dt, cls_name)
    fields = {f.name: f for f in dataclasses.fields(cls)}
    pf = "data" if "data" in fields else "blob"
    is_stream = "BytesIO" in str(fields[pf].type)
    req = {n: (1 if "int" in str(f.type) else "") for n, f in fields.items() if f.default is dataclasses.MISSING and f.default_factory is dataclasses.MISSING}
    for payload in (b"", b"x", b"\x89PNG" + bytes(range(50))):
        kw = dict(req)
        kw[pf] = io.BytesIO(payload) if is_stream else payload
        if "size_bytes" in fields:
            kw["size_bytes"] = len(payload)
        for nf in ("image_index", "image_number", "index"):
            if nf in fields:
                kw[nf] = 1
        yield cls(**kw), payload
    kw = dict(req)
    if is_stream or "Optional" in str(fields[pf].type):
        kw[pf] = None
        for nf in ("image_index", "image_number", "index"):
            if nf in fields:
                kw[nf] = 1
        yield cls(**kw), b""


def find_image(cls_name, want=("bytes", "image-size", "accessor-raises")):
    for obj, payload in image_instances(cls_name):
        b = getattr(obj, "data", getattr(obj, "blob", None))
        if isinstance(b, io.BytesIO):
            b.seek(0, 2)                     # a consumer left the stored stream at its end
        F = Failures()
        check_image(F, cls_name, obj)
        bad = [f for f in F if f["kind"] in want]
        if bad:
            return {"reproduced": True, "target": f"data_types.py::{cls_name}.get_bytes", "inputs": {"payload_len": len(payload), "stored_stream_at_end": True},
                    "expected": "BytesIO at position 0 over the stored payload, length == size_bytes", "observed": bad[0]["detail"]}
    return {"reproduced": False, "note": f"{cls_name}: get_bytes honours the interface on hand-built instances"}


PATHS = [None, "a.txt", "/abs/dir/y.docx", "rel/dir/z.tar.gz", "archive.zip!/inner/m.txt", "ünï/cödé.pdf", "noext", ".hidden", "/", "dir.d/x", "/nonexistent/q.xlsx"]


def find_path():
    """Path arguments: None, relative, absolute, unicode, archive!/member, non-existent -- and EXISTING ones in a scratch directory
    (plain file, symlink whose target has another name / suffix / directory, a path through `sub/..`)."""
    from sharepoint2text.parsing.extractors import data_types as dt
    import pathlib
    import tempfile
    with tempfile.TemporaryDirectory() as d:
        real = os.path.realpath(d)
        os.makedirs(os.path.join(real, "store", "deep"))
        os.makedirs(os.path.join(real, "inbox"))
        target = os.path.join(real, "store", "deep", "blob.dat")
        open(target, "wb").write(b"x")
        plain = os.path.join(real, "inbox", "plain.txt")
        open(plain, "wb").write(b"x")
        existing = [plain, os.path.join(real, "inbox", "..", "inbox", "plain.txt")]
        try:
            link = os.path.join(real, "inbox", "report.docx")
            os.symlink(target, link)
            existing.append(link)
            dlink = os.path.join(real, "shortcut")
            os.symlink(os.path.join(real, "store", "deep"), dlink)
            existing.append(os.path.join(dlink, "blob.dat"))
        except OSError:
            pass
        for p in PATHS + [pathlib.Path("rel/p.txt")] + existing + [pathlib.Path(x) for x in existing]:
            md = dt.FileMetadataInterface()
            F = Failures()
            ok, _ = call(F, "populate_from_path", md.populate_from_path, p)
            check_file_metadata(F, "FileMetadataInterface", md, p)
            if F:
                shown = str(p).replace(real, "<tmp>") if p is not None else None
                return {"reproduced": True, "target": "data_types.py::FileMetadataInterface.populate_from_path",
                        "inputs": {"path": shown, "exists": p is not None and os.path.lexists(str(p)), "is_symlink": p is not None and os.path.islink(str(p)),
                                   "layout": "<tmp>/inbox/report.docx -> <tmp>/store/deep/blob.dat ; <tmp>/shortcut -> <tmp>/store/deep"},
                        "expected": "name / suffix of the path ARGUMENT; path and folder: the argument's or their resolved form; all None without path",
                        "observed": F[0]["detail"].replace(real, "<tmp>")}
    return {"reproduced": False, "note": f"{len(PATHS) + 1 + 2 * len(existing)} path arguments (incl. existing files and symlinks): metadata derived from the path"}


def find_accessor(cls_name, meth):
    """Hand-built instances with default / adversarial-but-well-typed fields: does the accessor raise or return a non-str?"""
    from sharepoint2text.parsing.extractors import data_types as dt
    import dataclasses
    cls = getattr(dt, cls_name, None)
    if cls is None or not dataclasses.is_dataclass(cls):
        return {"reproduced": False, "note": "class not found"}
    fields = dataclasses.fields(cls)
    req = {}
    for f in fields:
        if f.default is dataclasses.MISSING and f.default_factory is dataclasses.MISSING:
            t = str(f.type)
            req[f.name] = 1 if t.startswith("int") else ([] if "ist" in t else "")
    variants = [dict(req)]
    for s in ("", " x ", "9" * 400 + "cm", "é"):
        v = dict(req)
        for f in fields:
            t = str(f.type)
            if t in ("str", "Optional[str]", "str | None"):
                v[f.name] = s
        variants.append(v)
    for kw in variants:
        try:
            obj = cls(**kw)
            out = getattr(obj, meth)()
        except Exception as e:  # noqa
            return {"reproduced": True, "target": f"data_types.py::{cls_name}.{meth}", "inputs": {"fields": {k: (v if not isinstance(v, str) or len(v) < 30 else v[:6] + "...") for k, v in kw.items()}},
                    "expected": "no exception", "observed": f"{type(e).__name__}: {e}"}
        if meth in ("get_text", "get_content_type", "get_caption", "get_description") and not isinstance(out, str):
            return {"reproduced": True, "target": f"data_types.py::{cls_name}.{meth}", "inputs": {"fields": str(kw)[:200]}, "expected": "str", "observed": type(out).__name__}
    return {"reproduced": False, "note": f"{cls_name}.{meth}: no exception on {len(variants)} hand-built instances"}


# ------------------------------------------------------------------- sweep --
def fixture_files():
    import sharepoint2text
    out = []
    for f in sorted(glob.glob(os.path.join(RES, "*", "*"))):
        if os.path.isfile(f) and sharepoint2text.is_supported_file(f) and "password" not in f and "encrypted" not in f.lower():
            out.append(f)
    return out


def sweep(kinds=None, cls=None, fixtures_only=False):
    """Interface failures over all fixtures (path given, then path None) plus the crafted documents."""
    out = []
    docs = []
    for f in fixture_files():
        try:
            docs.append((f, open(f, "rb").read()))
        except OSError:
            pass
    if not fixtures_only:
        for label, units in rtf_cases():
            for ctx, data in rtf_documents(units):
                docs.append((f"crafted:{label} ({ctx}).rtf", data))
        for f_, label, data_ in spine_variants():
            docs.append((f"crafted:{label} ({os.path.basename(f_)}).epub", data_))
        for name_, data_, _what in collision_documents():
            docs.append((name_, data_))
        for rel, pred, _key in DAMAGED:
            f = os.path.join(RES, rel)
            if os.path.exists(f):
                docs.append((f, corrupt_crc(open(f, "rb").read(), pred)[0]))
                try:
                    docs.append((f, garble_pictures(f, pred)[0]))
                except Exception:  # noqa
                    pass
    for name, data in docs:
        for path in ("<same>", None):
            try:
                F = failures_of(data, name, path)
            except Exception:  # noqa: extraction refused the input: not a result (failure surface is C01's)
                continue
            for x in F:
                if kinds and x["kind"] not in kinds:
                    continue
                if cls and x.get("cls") != cls:
                    continue
                out.append(dict(x, file=name.replace(REPO + "/", ""), path_given=path is not None))
    return out


# ------------------------------------------------------- field-name collisions --
def collision_documents():
    """Documents whose own attribute / property NAMES equal field names of the result's metadata class (filename, file_path,
    title ...): a reader that copies name -> field generically must not let the document overwrite what comes from the path."""
    from sharepoint2text.parsing.extractors import data_types as dt
    import dataclasses
    names = [f.name for f in dataclasses.fields(dt.HtmlMetadata)]
    metas = "".join(f'<meta name="{n}" content="doc-says-{n}.bin">' for n in names) + "".join(f'<meta name="{n.upper()}" content="DOC-SAYS-{n}">' for n in names[:5])
    yield "collision.html", f"<html><head><title>T</title>{metas}</head><body><p>x</p></body></html>".encode("utf-8"), "html <meta name=FIELD> for every field of HtmlMetadata"
    f = os.path.join(RES, "open_office/headings.odt")
    if os.path.exists(f):
        import re
        onames = [x.name for x in dataclasses.fields(dt.OpenDocumentMetadata)]
        extra = "".join(f'<meta:user-defined meta:name="{n}">doc-says-{n}</meta:user-defined>' for n in onames)
        buf = io.BytesIO()
        try:
            src = zipfile.ZipFile(f)
            with zipfile.ZipFile(buf, "w", zipfile.ZIP_DEFLATED) as z:
                for zi in src.infolist():
                    data = src.read(zi.filename)
                    if zi.filename == "meta.xml":
                        data = re.sub(rb"(<office:meta[^>]*>)", lambda m: m.group(1) + extra.encode(), data, count=1)
                    z.writestr(zi, data)
            yield "collision.odt", buf.getvalue(), "odt meta:user-defined named after every field of OpenDocumentMetadata"
        except Exception:  # noqa -- a fixture that cannot be re-packed gives no document
            pass
    try:      # OPF (EPUB) and OOXML core.xml property names
        from replay import c04_collide
        more = list(c04_collide.documents())
    except Exception:  # noqa
        more = []
    yield from more


def find_field_collisions(ob):
    for name, data, what in collision_documents():
        if "html" in ob and not name.endswith(".html"):
            continue
        for path in ("some/dir/" + name, None):
            try:
                F = failures_of(data, name, path)
            except Exception:  # noqa
                continue
            bad = [x for x in F if x["kind"] in ("path-metadata", "accessor-raises", "not-str", "shared-metadata")]
            if bad:
                return {"reproduced": True, "target": "sharepoint2text extractor", "inputs": {"document": what, "bytes": data.decode("utf-8", "replace")[:600] if name.endswith(".html") else name, "path": path},
                        "expected": "file name / extension / folder derived from the path argument (all None without path)", "observed": f"{bad[0]['where']}: {bad[0]['detail']}"}
    return {"reproduced": False, "note": "documents naming their properties after metadata fields: path metadata unaffected"}


# ------------------------------------------------------------ unit numbers --
def spine_variants():
    """EPUB fixtures with the flow attributes of the spine changed: first itemref linear="no" (the usual cover page), every
    itemref linear="no", first itemref repeated -- documents that reach the branches where chapters are numbered differently."""
    import re
    for f in fixture_files():
        if not f.lower().endswith(".epub"):
            continue
        try:
            src = zipfile.ZipFile(f)
            opf = [n for n in src.namelist() if n.endswith(".opf")][0]
            text = src.read(opf).decode("utf-8")
        except Exception:  # noqa
            continue
        refs = re.findall(r"<(?:opf:)?itemref\b[^>]*>", text)
        if not refs:
            continue

        def mark(tag):
            t = re.sub(r'\slinear="[^"]*"', "", tag)
            return t[:-2] + ' linear="no"/>' if t.endswith("/>") else t[:-1] + ' linear="no">'
        variants = {"first itemref linear=no": text.replace(refs[0], mark(refs[0]), 1),
                    "every itemref linear=no": re.sub(r"<(?:opf:)?itemref\b[^>]*>", lambda m: mark(m.group(0)), text),
                    "first itemref repeated": text.replace(refs[0], refs[0] + refs[0], 1)}
        for label, new in variants.items():
            buf = io.BytesIO()
            try:
                with zipfile.ZipFile(buf, "w", zipfile.ZIP_DEFLATED) as z:
                    for zi in src.infolist():
                        z.writestr(zi, new.encode("utf-8") if zi.filename == opf else src.read(zi.filename))
            except Exception:  # noqa -- a fixture with a damaged member cannot be re-packed: no variant of it
                break
            yield f, label, buf.getvalue()


def find_unit_numbers(ob):
    for f, label, data in spine_variants():
        if "epub" not in ob and "data_types" not in ob:
            break
        try:
            F = failures_of(data, f)
        except Exception:  # noqa
            continue
        bad = [x for x in F if x["kind"] == "unit-number"]
        if bad:
            return {"reproduced": True, "target": "sharepoint2text read_epub", "inputs": {"fixture": f.replace(REPO + "/", ""), "variant": label},
                    "expected": "unit numbers are positive integers", "observed": f"{bad[0]['where']}: {bad[0]['detail']}"}
    if "ppt_extractor" in ob or ("data_types" in ob and "::Ppt" in ob):
        try:
            from replay import c04_ppt
            r = c04_ppt.find(ob)
        except Exception as e:  # noqa
            r = {"reproduced": False, "note": f"PPT stream replay failed: {type(e).__name__}"}
        if r["reproduced"]:
            return r
    s = sweep(kinds=("unit-number",))
    if s:
        return {"reproduced": True, "target": ob, "inputs": {"file": s[0]["file"]}, "expected": "unit numbers are positive integers", "observed": f"{s[0]['where']}: {s[0]['detail']}"}
    r = find_content_scope()
    if r["reproduced"] and "unit_number" in str(r.get("observed")):
        return r
    return {"reproduced": False, "note": "spine variants, fixtures and hand-built content objects: every unit number is >= 1"}


# ------------------------------------------------------ content small scope --
def content_scope():
    """Hand-built, well-typed content objects (BOUNDED small scope): every content class with its defaults; DocContent over all
    texts of up to 3 lines from a small grammar (heading lines, body lines, blank, a line that spells a table) x images x tables."""
    from sharepoint2text.parsing.extractors import data_types as dt
    import dataclasses
    import itertools
    for name, cls in sorted(vars(dt).items()):
        if isinstance(cls, type) and dataclasses.is_dataclass(cls) and name.endswith("Content") and hasattr(cls, "iterate_units"):
            try:
                yield f"{name}()", cls()
            except TypeError:
                pass
    lines = ["Chapter 1", "Subsection A", "intro", "body text", "", "a b"]
    img = lambda cap: dt.DocImage(image_number=1, content_type="image/png", data=b"x", size_bytes=1, caption=cap)  # noqa: E731
    for n in range(0, 4):
        for combo in itertools.product(lines, repeat=n):
            text = "\n".join(combo)
            for images in ([], [img("")], [img("body")]):
                for tables in ([], [[["a", "b"]]]):
                    yield f"DocContent(main_text={text!r}, images={len(images)}, tables={len(tables)})", dt.DocContent(main_text=text, images=list(images), tables=list(tables))


def find_content_scope(limit=None):
    n = 0
    for label, obj in content_scope():
        n += 1
        F = check_result(obj)
        bad = [f for f in F if f["kind"] in ("accessor-raises", "not-str", "not-wf", "unit-number", "image-number", "image-size", "bytes", "dim")]
        if bad:
            return {"reproduced": True, "target": "data_types.py content classes (hand-built instances)", "inputs": {"object": label},
                    "expected": "every accessor of the result, its units, images and tables honours the interface", "observed": f"{bad[0]['where']}: {bad[0]['detail']}",
                    "instances_tried": n}
    return {"reproduced": False, "note": f"{n} hand-built content objects honour the interface", "instances": n}


def find_iterator(cls_name, meth):
    """iterate_images / iterate_tables of a content class on hand-built well-typed instances (defaults, the DocContent scope, and
    one instance per class whose list fields hold one nested element each): no exception, every yielded value implements the
    interface the method promises (data_types.ImageInterface / TableInterface methods present)."""
    from sharepoint2text.parsing.extractors import data_types as dt
    import dataclasses
    need = ("get_bytes", "get_content_type", "get_metadata") if meth == "iterate_images" else ("get_table", "get_dim")
    cls = getattr(dt, cls_name, None)
    objs = [(l, o) for l, o in content_scope() if type(o).__name__ == cls_name][:40]

    def build(c, depth=0):
        kw = {}
        for f in dataclasses.fields(c):
            t = str(f.type)
            inner = t[t.find("[") + 1:t.rfind("]")] if "ist[" in t else None
            if inner is not None and depth < 2:
                ic = getattr(dt, inner.split(".")[-1].strip("'\""), None)
                if inner.replace(" ", "").lower().startswith(("list[list", "typing.list[typing.list")):
                    kw[f.name] = [[["a", "b"], ["c"]]]
                elif ic is not None and dataclasses.is_dataclass(ic):
                    try:
                        kw[f.name] = [build(ic, depth + 1)]
                    except Exception:  # noqa
                        pass
            elif f.default is dataclasses.MISSING and f.default_factory is dataclasses.MISSING:
                kw[f.name] = 1 if t.startswith("int") else (b"x" if "bytes" in t else "")
        return c(**kw)
    if cls is not None and dataclasses.is_dataclass(cls):
        try:
            objs.append((f"{cls_name}(<one nested element per list field>)", build(cls)))
        except Exception:  # noqa
            pass
    for label, obj in objs:
        try:
            got = list(getattr(obj, meth)())
        except Exception as e:  # noqa
            return {"reproduced": True, "target": f"data_types.py::{cls_name}.{meth}", "inputs": {"object": label}, "expected": "no exception",
                    "observed": f"{type(e).__name__}: {e}"}
        for v in got:
            if not all(callable(getattr(v, m, None)) for m in need):
                return {"reproduced": True, "target": f"data_types.py::{cls_name}.{meth}", "inputs": {"object": label},
                        "expected": f"every yielded value has {', '.join(need)}", "observed": f"yields a {type(v).__name__}"}
    return {"reproduced": False, "note": f"{cls_name}.{meth}: {len(objs)} hand-built instances"}


# --------------------------------------------------------------- isolation --
META_MEMBERS = ("meta.xml", "docProps/core.xml", "docProps/app.xml")


def strip_metadata_members(path):
    """The document without its metadata parts (meta.xml / docProps/*): damaged or minimal but still accepted."""
    try:
        src = zipfile.ZipFile(path)
    except Exception:  # noqa
        return None
    if not any(n in META_MEMBERS for n in src.namelist()):
        return None
    buf = io.BytesIO()
    try:
        with zipfile.ZipFile(buf, "w", zipfile.ZIP_DEFLATED) as z:
            for zi in src.infolist():
                if zi.filename in META_MEMBERS:
                    continue
                z.writestr(zi, src.read(zi.filename))
    except Exception:  # noqa -- a fixture that is itself a damaged archive
        return None
    return buf.getvalue()


def path_fields(md):
    return tuple(getattr(md, f, "<missing>") for f in ("filename", "file_extension", "file_path", "folder_path"))


def isolation_failures(data, name):
    """Three extractions of the same bytes in one process: with path A, with no path, with path B.  No result may see another
    extraction's path: the path-less one reports all None, the earlier ones keep what they reported."""
    import sharepoint2text
    out = []
    ex = sharepoint2text.get_extractor(name)
    ext = os.path.splitext(name)[1]
    pa, pb = "first/dir/alpha" + ext, "/other/place/beta" + ext
    try:
        ra = list(ex(io.BytesIO(data), pa))
        snap = [path_fields(r.get_metadata()) for r in ra]
        rn = list(ex(io.BytesIO(data), None))
        rb = list(ex(io.BytesIO(data), pb))
    except Exception:  # noqa -- refused input: not a result
        return out
    if name.lower().endswith(ARCHIVE_EXT):
        return out
    for i, r in enumerate(rn):
        v = path_fields(r.get_metadata())
        if any(x is not None for x in v):
            out.append({"kind": "shared-metadata", "where": f"{type(r).__name__}.get_metadata()", "detail": f"extracted without a path after an extraction with path {pa!r}: reports {v!r}"})
    for i, r in enumerate(ra):
        v = path_fields(r.get_metadata())
        if v != snap[i]:
            out.append({"kind": "shared-metadata", "where": f"{type(r).__name__}.get_metadata()", "detail": f"result of the extraction with path {pa!r} now reports {v!r} (was {snap[i]!r}) after later extractions"})
    for i, r in enumerate(rb):
        v = path_fields(r.get_metadata())
        if v[0] != os.path.basename(pb):
            out.append({"kind": "shared-metadata", "where": f"{type(r).__name__}.get_metadata()", "detail": f"extracted with path {pb!r}: reports {v!r}"})
    return out


def isolation_documents(module_key=None):
    import sharepoint2text
    for f in fixture_files():
        try:
            mod = sharepoint2text.get_extractor(f).__module__
        except Exception:  # noqa
            continue
        if module_key and module_key not in mod and not (module_key == "_shared" and "open_office" in mod):
            continue
        data = open(f, "rb").read()
        yield f, "fixture", data
        stripped = strip_metadata_members(f)
        if stripped is not None:
            yield f, "metadata parts (meta.xml / docProps/*) removed", stripped


def find_isolation(ob):
    key = ob.split("C04/")[1].split(".py")[0] if "C04/" in ob else None
    for f, what, data in isolation_documents(key):
        bad = isolation_failures(data, f)
        if bad:
            return {"reproduced": True, "target": "sharepoint2text extractor, three extractions in one process (path A, no path, path B)",
                    "inputs": {"fixture": f.replace(REPO + "/", ""), "variant": what}, "expected": "each result reports only its own path argument (all None without path)",
                    "observed": f"{bad[0]['where']}: {bad[0]['detail']}"}
    return {"reproduced": False, "note": "repeated extractions: no result sees another extraction's path"}


# ---------------------------------------------------------------- metadata --
def find_metadata(reader, strings=None):
    from replay import c04_meta
    return c04_meta.find(reader, strings)


# -------------------------------------------------------------------- find --
def find(req):
    ob = req.get("obligation", "") or ""
    hint = req.get("extra") or {}
    wit = req.get("witness") or {}
    n = wit.get("n") if isinstance(wit, dict) else None
    if req.get("known_finding"):
        return known(req["known_finding"])
    if req.get("sweep"):
        s = sweep(fixtures_only=bool(req.get("fixtures_only")))
        for f, what, data in isolation_documents():
            for x in isolation_failures(data, f):
                s.append(dict(x, file=f.replace(REPO + "/", "") + f" [{what}]"))
        from replay import c04_meta
        for r in list(c04_meta.CASES) + ["rtf"]:            # documents with known properties: reported unchanged
            try:
                bad, name = c04_meta.run_case(r)
            except Exception as e:  # noqa
                bad, name = [("?", "?", "extraction", f"{type(e).__name__}")], r
            for (p_, f_, want, got, *lay) in bad:
                s.append({"kind": "metadata", "where": f"{r} get_metadata().{f_}", "detail": f"stored {want!r}, reported {got!r}", "file": f"crafted:{name}" + (" " + lay[0] if lay else "")})
        return {"reproduced": bool(s), "failures": s[:50], "count": len(s), "files": len(fixture_files())}
    if "assumed-model-validation" in ob:
        s = sweep(fixtures_only=True)
        if s:
            return {"reproduced": True, "target": "sharepoint2text extractors (fixture sweep)", "inputs": {"file": s[0]["file"], "path_given": s[0].get("path_given")},
                    "expected": "every accessor of every result / unit / image / table honours the interface", "observed": f"{s[0]['where']}: {s[0]['detail']}",
                    "failures": len(s)}
        from replay import c04_meta
        r = c04_meta.find("")
        return r
    if "#chr-wf@" in ob:
        if "rtf_extractor" in ob:
            return find_rtf(ob.split("::")[1].split("/")[0], n)
        if "sevenzip" in ob:
            return find_sevenzip(n)
        r = find_text_helper((hint or {}).get("file") or "", ob.split("::")[1].split("/")[0], n)
        if r["reproduced"] or "docx_extractor" not in ob:
            return r
        from replay import c04_meta
        m = c04_meta.find("C04/x#docx-")
        return m if m["reproduced"] else r
    if "#decode-wf@" in ob or "#text-producer-wf@" in ob:
        fn = ob.split("::")[1].split("/")[0]
        k = int(ob.rsplit("@", 1)[1])
        if "html_extractor" in ob:
            return find_html()
        if "mbox_email_extractor" in ob:
            return find_mbox(fn, k)
        return {"reproduced": False, "note": "no crafted input for this decode site"}
    if "#store-indirect" in ob or ("#store-" in ob and "metadata" in (req.get("reason") or "")):
        r = find_field_collisions(ob)
        if r["reproduced"]:
            return r
    if "/call-pre#" in ob and "-positive@" in ob and (hint or {}).get("kind") == "unit-number":
        return find_unit_numbers(ob)
    if "/call-pre#" in ob and any(t in ob for t in ("-positive@", "size_bytes-is-len-of-payload", "-invariants@", "#store-", "class-used-as-a-value",
                                                      "not-from-a-None-source")):
        # image objects built at (or rewritten after) a constructor site: documents that reach the error branches (pictures that
        # cannot be read, pictures of an unknown format without extents), a hand-built OfficeArt stream, then every fixture
        kinds = ("image-number", "image-size", "bytes", "accessor-raises", "not-str")
        finders = [lambda: find_damaged_member(ob, kinds), lambda: find_garbled_pictures(ob, kinds), lambda: find_blip(ob)]
        if "not-from-a-None-source" in ob:
            finders.insert(0, lambda: find_renamed_pictures(ob, kinds))
        for fn_ in finders:
            r = fn_()
            if r["reproduced"]:
                return r
        cls = ob.split("#")[1].split("-")[0]
        cls = cls if cls[:1].isupper() else None
        s = sweep(kinds=kinds, cls=cls)
        if s:
            return {"reproduced": True, "target": ob, "inputs": {"file": s[0]["file"]}, "expected": "size_bytes == len(payload), number >= 1, accessors total",
                    "observed": f"{s[0]['where']}: {s[0]['detail']}"}
        return {"reproduced": False, "note": "damaged / garbled pictures, BLIP stream and fixtures: every image honours the interface"}
    if ".iterate_images/" in ob or ".iterate_tables/" in ob:
        q = ob.split("::")[1].split("/")[0]
        r = find_iterator(*q.split(".", 1))
        if r["reproduced"]:
            return r
    if ".get_dim/" in ob:
        return find_table(ob.split("::")[1].split(".")[0])
    if ".get_table/" in ob and ("/inv-" in ob or "/ensures#row-count" in ob or "/ensures#every-row" in ob):
        r = find_record_table(ob.split("::")[1].split(".")[0])
        if r["reproduced"]:
            return r
    if ".get_bytes/" in ob:
        return find_image(ob.split("::")[1].split(".")[0])
    if "small-scope-accessor-totality" in ob or req.get("content_scope"):
        return find_content_scope()
    if "populate_from_path-receiver" in ob:
        return find_isolation(ob)
    if "populate_from_path" in ob or "path-fields-default" in ob:
        return find_path()
    if "_odf_length_to_px" in ob or "length-helper" in ob or "OpenDocumentImage.get_metadata" in ob:
        return find_odf_length(ob.split("::")[1].split("/")[0])
    if "/metadata-copied" in ob or "metadata#" in ob:
        r = find_metadata(ob, (hint or {}).get("strings"))
        return r if r["reproduced"] else (find_field_collisions(ob) if find_field_collisions(ob)["reproduced"] else r)
    if "data_types.py::" in ob and ("/raises" in ob or "/ensures#returns" in ob):
        q = ob.split("::")[1].split("/")[0]
        if "." in q:
            c, m = q.split(".", 1)
            r = find_accessor(c, m)
            if r["reproduced"]:
                return r
            s = [x for x in sweep(kinds=("accessor-raises", "not-str")) if f".{m}()" in x["where"]]
            if s:
                return {"reproduced": True, "target": ob, "inputs": {"file": s[0]["file"]}, "expected": "no exception / str", "observed": f"{s[0]['where']}: {s[0]['detail']}"}
            return r
    return {"reproduced": False, "note": "no native search defined for this obligation"}


def known(fid):
    """Witness replay of a recorded known finding."""
    if fid.startswith("C04-html-charset"):
        return find_html()
    if fid.startswith("C04-doc-heading-only"):
        return find_content_scope()
    if fid.startswith("C04-xlsx-image-dimensions"):
        return find_garbled_pictures("xlsx_extractor", ("accessor-raises",))
    if fid.startswith("C04-mbox-charset"):
        return find_mbox()
    return {"reproduced": False, "note": "unknown finding"}


def rerun(stored):
    return find({"obligation": stored.get("obligation", ""), "witness": (stored.get("solver") or {}).get("witness_model"), "extra": stored.get("extra")})
