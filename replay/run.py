"""Replay harness (runs under /venv/bin/python, imports the REAL code from
$VERIF_REPO).  stdin: request JSON; stdout: last line = result JSON
{"reproduced": bool, "target":..., "inputs":..., "expected":..., "observed":...}."""
import importlib
import json
import os
import sys

ROOT = os.path.dirname(os.path.dirname(os.path.abspath(__file__)))
sys.path.insert(0, ROOT)
repo = os.environ.get("VERIF_REPO", "/repo")
sys.path.insert(0, repo)


def main():
    import logging
    logging.disable(logging.CRITICAL)
    req = json.load(sys.stdin)
    prop = req["property"]
    try:
        mod = importlib.import_module(f"replay.{prop}")
    except ModuleNotFoundError:
        print(json.dumps({"reproduced": False, "note": f"no native replayer for {prop}"}))
        return
    try:
        if req.get("rerun"):
            res = mod.rerun(req["stored"])
        else:
            res = mod.find(req)
    except Exception as e:  # noqa
        import traceback
        res = {"reproduced": False, "note": "replayer crashed: " + traceback.format_exc()[-1500:]}
    print(json.dumps(res, default=repr))


if __name__ == "__main__":
    main()
