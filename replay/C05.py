"""Native replay for C05 (runs under /venv/bin/python on the real code; no z3).

* type-directed instance generation for every registered dataclass (every field populated from its type hint;
  strings drawn from a vocabulary that contains the encoding's markers `_type`, `_bytes`, `_bytesio`), then
  json.dumps(to_json) works; from_json(json.loads(json.dumps(to_json))) has the same type and identical to_json;
  excluding binary payloads nulls exactly the binary leaves.  BOUNDED: a finite family of instances per class.
* F6 witnesses: a mapping from document content whose key is a marker (dataclass level and a real .xls file).
* F5 witness: an XLSX duration cell.
* `--registry-dump`: the real reflective registry with hint shapes, for the cross-check of the AST-derived registry.
"""
import dataclasses
import io
import json
import os
import sys
import types
import typing

REPO = os.environ.get("VERIF_REPO", "/repo")
if REPO not in sys.path:
    sys.path.insert(0, REPO)

MARKERS = ("_type", "_bytes", "_bytesio")
STRINGS = ["", "x", "_type", "_bytes", "_bytesio", "PdfContent", "é中 \"q\"\n"]
SAFE_KEYS = ["k", "type", "bytes_", "Unnamed: 0"]
PRIM = {str: 1, int: 2, float: 3, bool: 4}


# ----------------------------------------------------------- hint shapes --
def shape_of(tp):
    if tp is typing.Any:
        return "any"
    if tp in PRIM:
        return f"prim:{PRIM[tp]}"
    if tp is bytes:
        return "bytes"
    if tp is bytearray:
        return "bytearray"
    if tp is io.BytesIO:
        return "bytesio"
    if tp is type(None):
        return "none"
    origin = typing.get_origin(tp)
    args = typing.get_args(tp)
    if origin is typing.Union and len(args) == 2 and type(None) in args:
        return "opt[" + shape_of([a for a in args if a is not type(None)][0]) + "]"
    if origin is getattr(types, "UnionType", None) and len(args) == 2 and type(None) in args:
        return "u604[" + shape_of([a for a in args if a is not type(None)][0]) + "]"
    if origin is list:
        return "list[" + shape_of(args[0]) + "]" if args else "listbare"
    if origin is dict:
        return f"dict[{shape_of(args[0])},{shape_of(args[1])}]" if args else "dictbare"
    if isinstance(tp, type):
        return f"cls:{tp.__name__}"
    return f"other:{tp}"


def registry_dump():
    from sharepoint2text.parsing.extractors.serialization import _get_type_registry
    out = {}
    for name, cls in _get_type_registry().items():
        hints = typing.get_type_hints(cls)
        out[name] = [(f.name, shape_of(hints[f.name])) for f in dataclasses.fields(cls)]
    return out


# ------------------------------------------------------ instance generation --
class Gen:
    def __init__(self, variant, marker_keys=False):
        self.v = variant
        self.n = 0
        self.marker_keys = marker_keys
        from sharepoint2text.parsing.extractors.serialization import _get_type_registry
        self.reg = _get_type_registry()

    def tick(self):
        self.n += 1
        return self.n + self.v

    def string(self):
        return STRINGS[self.tick() % len(STRINGS)]

    def scalar(self):
        k = self.tick() % 6
        return [None, True, 7, -2.5, self.string(), 0][k]

    def implementers(self, proto):
        """Registered dataclasses usable where a Protocol / base class is annotated."""
        names = sorted(self.reg)
        if proto.__name__ == "ImageInterface":
            return [self.reg[n] for n in names if n.endswith("Image")]
        if proto.__name__ == "TableInterface":
            return [self.reg["TableData"]]
        subs = [self.reg[n] for n in names if isinstance(self.reg[n], type) and issubclass(self.reg[n], proto) and self.reg[n] is not proto] \
            if not getattr(proto, "_is_protocol", False) else []
        return subs

    def value(self, tp, depth):
        if tp is typing.Any:
            return self.scalar()
        if tp is str:
            return self.string()
        if tp is int:
            return [0, 1, -3, 2 ** 40][self.tick() % 4]
        if tp is float:
            return [0.0, 1.5, -2.25e10][self.tick() % 3]
        if tp is bool:
            return bool(self.tick() % 2)
        if tp is bytes:
            return [b"", b"\x00\xff_bytes", b"abc"][self.tick() % 3]
        if tp is bytearray:
            return bytearray(b"\x01\x02")
        if tp is io.BytesIO:
            b = io.BytesIO([b"", b"\x89PNG\x00\xff", b"_bytesio"][self.tick() % 3])
            if self.v % 2:
                b.seek(0, 2)           # position at the end: the payload must still be complete
            return b
        origin = typing.get_origin(tp)
        args = typing.get_args(tp)
        if origin is typing.Union or origin is getattr(types, "UnionType", None):
            non_none = [a for a in args if a is not type(None)]
            if self.v == 0 and type(None) in args:
                return None
            return self.value(non_none[0], depth)
        if origin is list:
            n = 0 if self.v == 0 else 2
            et = args[0] if args else typing.Any
            items = [self.value(et, depth + 1) for _ in range(n)]
            return tuple(items) if self.v == 4 and et in (str, int) else items     # tuples are encoded like lists
        if origin is dict:
            vt = args[1] if len(args) > 1 else typing.Any
            keys = (list(MARKERS[: 1 + self.tick() % 3]) if self.marker_keys else []) + SAFE_KEYS[: 1 + self.tick() % 3]
            return {} if self.v == 0 else {k: self.value(vt, depth + 1) for k in keys}
        if isinstance(tp, type):
            if dataclasses.is_dataclass(tp) and not getattr(tp, "_is_protocol", False):
                cands = [tp]
                if self.v >= 2:
                    cands = [tp] + self.implementers(tp)
                return self.instance(cands[self.tick() % len(cands)], depth + 1)
            impl = self.implementers(tp)
            if impl:
                return self.instance(impl[self.tick() % len(impl)], depth + 1)
        raise TypeError(f"no generator for hint {tp!r}")

    def instance(self, cls, depth=0):
        hints = typing.get_type_hints(cls)
        kw = {}
        for f in dataclasses.fields(cls):
            if not f.init:
                continue
            tp = hints[f.name]
            if depth > 3 and (f.default is not dataclasses.MISSING or f.default_factory is not dataclasses.MISSING):
                continue
            kw[f.name] = self.value(tp, depth)
        return cls(**kw)


def binfree(x):
    """x with exactly the binary leaves replaced by None (deep copy through the dataclass structure)."""
    if isinstance(x, (bytes, bytearray, io.BytesIO)):
        return None
    if dataclasses.is_dataclass(x) and not isinstance(x, type):
        return _Shadow(type(x).__name__, [(f.name, binfree(getattr(x, f.name))) for f in dataclasses.fields(x)])
    if isinstance(x, dict):
        return {k: binfree(v) for k, v in x.items()}
    if isinstance(x, (list, tuple, set)):
        return [binfree(v) for v in x]
    return x


class _Shadow:
    def __init__(self, name, fields):
        self.name, self.fields = name, fields


def shadow_json(x):
    """The encoding of a binary-free shadow, written from the property statement (not calling the library)."""
    if isinstance(x, _Shadow):
        d = {"_type": x.name}
        for k, v in x.fields:
            d[k] = shadow_json(v)
        return d
    if isinstance(x, dict):
        return {str(k): shadow_json(v) for k, v in x.items()}
    if isinstance(x, list):
        return [shadow_json(v) for v in x]
    return x


def check_instance(x, where):
    """-> None or a failure record."""
    from sharepoint2text.parsing.extractors.serialization import deserialize_extraction, serialize_extraction
    name = type(x).__name__
    try:
        j = x.to_json() if hasattr(x, "to_json") else serialize_extraction(x)
    except Exception as e:  # noqa
        return {"target": f"{name}.to_json", "inputs": where, "expected": "to_json() returns", "observed": f"{type(e).__name__}: {e}"}
    try:
        text = json.dumps(j)
    except Exception as e:  # noqa
        return {"target": f"{name}.to_json", "inputs": where, "expected": "json.dumps(to_json()) succeeds", "observed": f"{type(e).__name__}: {e}"}
    try:
        y = deserialize_extraction(json.loads(text))
    except Exception as e:  # noqa
        return {"target": f"{name}.from_json", "inputs": where, "expected": "from_json(json.loads(json.dumps(to_json()))) returns",
                "observed": f"{type(e).__name__}: {e}"}
    if type(y) is not type(x):
        return {"target": f"{name}.from_json", "inputs": where, "expected": f"an instance of {name}", "observed": f"an instance of {type(y).__name__}"}
    j2 = serialize_extraction(y)
    if j2 != j:
        return {"target": f"{name}.from_json", "inputs": where, "expected": "identical to_json()", "observed": _first_diff(j, j2)}
    d = payload_diff(x, y)
    if d:
        return {"target": f"{name}.from_json", "inputs": where, "expected": "nested objects of the same types with identical image/attachment bytes", "observed": d}
    for meth in ("get_full_text",):
        if hasattr(x, meth):
            try:
                a_, b_ = getattr(x, meth)(), getattr(y, meth)()
            except Exception:  # noqa  (views of synthetic instances may not be computable: other properties)
                continue
            if a_ != b_:
                return {"target": f"{name}.from_json", "inputs": where, "expected": f"identical {meth}()", "observed": f"{a_!r:.60} vs {b_!r:.60}"}
    if hasattr(x, "iterate_units"):
        try:
            ua = [serialize_extraction(u) for u in x.iterate_units()]
            ub = [serialize_extraction(u) for u in y.iterate_units()]
        except Exception:  # noqa
            ua = ub = None
        if ua != ub:
            return {"target": f"{name}.from_json", "inputs": where, "expected": "identical units", "observed": _first_diff(ua, ub)}
    j0 = serialize_extraction(x, include_binary=False)
    want = shadow_json(binfree(x))
    if j0 != want:
        return {"target": f"serialize_extraction({name}, include_binary=False)", "inputs": where,
                "expected": "exactly the binary leaves null, nothing else changed", "observed": _first_diff(want, j0)}
    try:
        json.dumps(j0)
    except Exception as e:  # noqa
        return {"target": f"{name}.to_json(binary excluded)", "inputs": where, "expected": "json.dumps succeeds", "observed": f"{type(e).__name__}: {e}"}
    return None


def payload_diff(x, y, path="$"):
    """Binary leaves of x must come back as binary leaves with the same bytes."""
    if isinstance(x, io.BytesIO):
        return "" if isinstance(y, io.BytesIO) and y.getvalue() == x.getvalue() else f"{path}: BytesIO({x.getvalue()!r:.40}) came back as {_short(y)}"
    if isinstance(x, (bytes, bytearray)):
        return "" if isinstance(y, (bytes, bytearray)) and bytes(y) == bytes(x) else f"{path}: {bytes(x)!r:.40} came back as {_short(y)}"
    if dataclasses.is_dataclass(x) and not isinstance(x, type):
        if type(y) is not type(x):
            return f"{path}: {type(x).__name__} came back as {type(y).__name__}"
        for f in dataclasses.fields(x):
            d = payload_diff(getattr(x, f.name), getattr(y, f.name), f"{path}.{f.name}")
            if d:
                return d
        return ""
    if isinstance(x, dict) and isinstance(y, dict):
        for k in x:
            d = payload_diff(x[k], y.get(k), f"{path}[{k!r}]")
            if d:
                return d
        return ""
    if isinstance(x, (list, tuple)) and isinstance(y, (list, tuple)) and len(x) == len(y):
        for i, (a, b) in enumerate(zip(x, y)):
            d = payload_diff(a, b, f"{path}[{i}]")
            if d:
                return d
    return ""


def _short(v):
    if isinstance(v, io.BytesIO):
        return f"BytesIO({v.getvalue()!r:.40})"
    return f"{type(v).__name__} {v!r:.50}"


def _first_diff(a, b, path="$"):
    if type(a) is not type(b):
        return f"{path}: {a!r:.80} vs {b!r:.80}"
    if isinstance(a, dict):
        for k in list(a) + [k for k in b if k not in a]:
            if k not in a or k not in b:
                return f"{path}.{k}: key only on one side"
            d = _first_diff(a[k], b[k], f"{path}.{k}")
            if d:
                return d
        return ""
    if isinstance(a, list):
        if len(a) != len(b):
            return f"{path}: length {len(a)} vs {len(b)}"
        for i, (x, y) in enumerate(zip(a, b)):
            d = _first_diff(x, y, f"{path}[{i}]")
            if d:
                return d
        return ""
    return "" if a == b else f"{path}: {a!r:.80} vs {b!r:.80}"


def type_directed_scope(marker_keys=False, variants=(0, 1, 2, 3, 4)):
    """Every registered dataclass x several variants; -> (first failure or None, number of instances checked)."""
    from sharepoint2text.parsing.extractors.serialization import _get_type_registry
    n = 0
    for name, cls in sorted(_get_type_registry().items()):
        if getattr(cls, "_is_protocol", False):
            continue
        for v in variants:
            try:
                x = Gen(v, marker_keys).instance(cls)
            except TypeError as e:
                return {"target": name, "inputs": {"variant": v}, "expected": "an instance can be generated from the type hints", "observed": str(e)}, n
            n += 1
            r = check_instance(x, {"class": name, "variant": v, "marker_keys": marker_keys})
            if r is not None:
                return r, n
    return None, n


# ---------------------------------------------------------------- witnesses --
def f6_dataclass_level(key="_type", val="PdfContent"):
    from sharepoint2text.parsing.extractors.data_types import XlsContent, XlsSheet
    x = XlsContent(sheets=[XlsSheet(name="S", data=[{key: val, "b": 1}], text="")])
    return check_instance(x, {"builder": "xls_sheet_rows", "args": [[{key: val, "b": 1}]]})


def f6_file_level():
    """A real .xls whose header cell is `_bytes` (fixture mwe.xls with the two shared strings colA/colB rewritten
    in place to `_bytes`/`co`; same total length, so no offsets change)."""
    from sharepoint2text.parsing.extractors.ms_legacy.xls_extractor import read_xls
    p = os.path.join(REPO, "sharepoint2text/tests/resources/legacy_ms/mwe.xls")
    raw = open(p, "rb").read()
    old, new = b"\x04\x00\x00colA\x04\x00\x00colB", b"\x06\x00\x00_bytes\x02\x00\x00co"
    if raw.count(old) != 1:
        return None
    r = list(read_xls(io.BytesIO(raw.replace(old, new)), "marker_header.xls"))[0]
    return check_instance(r, {"file": "tests/resources/legacy_ms/mwe.xls with header cell A1 renamed to `_bytes`", "rows": r.sheets[0].data})


def f5_xlsx_duration():
    import datetime
    import openpyxl
    from sharepoint2text.parsing.extractors.ms_modern.xlsx_extractor import read_xlsx
    wb = openpyxl.Workbook()
    ws = wb.active
    ws.append(["name", "took"])
    ws.append(["a", datetime.timedelta(hours=1, minutes=30)])
    buf = io.BytesIO()
    wb.save(buf)
    buf.seek(0)
    r = list(read_xlsx(buf, "duration.xlsx"))[0]
    fail = check_instance(r, {"file": "XLSX with cell B2 = duration 1:30:00 (openpyxl timedelta)", "sheet_data": repr(r.sheets[0].data)})
    if fail is None:
        for u in r.iterate_units():
            fail = fail or check_instance(u, {"file": "XLSX with a duration cell", "unit": True})
    return fail


def cli_shapes():
    """--json / --json-unit: object for one result, array for several; equal to to_json."""
    from sharepoint2text import cli
    from sharepoint2text.parsing.extractors.data_types import PlainTextContent
    from sharepoint2text.parsing.extractors.serialization import serialize_extraction
    a, b = PlainTextContent(content="one"), PlainTextContent(content="two")
    for binary in (False, True):
        try:
            one = cli._serialize_results([a], include_binary=binary)
            many = cli._serialize_results([a, b], include_binary=binary)
            none = cli._serialize_results([], include_binary=binary)
        except Exception as e:  # noqa
            return {"target": "cli._serialize_results", "inputs": {"include_binary": binary, "results": "0, 1 or 2 results"},
                    "expected": "object for one result, array otherwise", "observed": f"{type(e).__name__}: {e}"}
        if one != serialize_extraction(a, include_binary=binary) or many != [serialize_extraction(x, include_binary=binary) for x in (a, b)] or none != []:
            return {"target": "cli._serialize_results", "inputs": {"include_binary": binary}, "expected": "object for one, array otherwise", "observed": repr((one, many))[:200]}
        u1 = cli._serialize_unit_results([a], include_binary=binary)
        u2 = cli._serialize_unit_results([a, b], include_binary=binary)
        if u1 != [serialize_extraction(u, include_binary=binary) for u in a.iterate_units()] or \
                u2 != [[serialize_extraction(u, include_binary=binary) for u in x.iterate_units()] for x in (a, b)]:
            return {"target": "cli._serialize_unit_results", "inputs": {"include_binary": binary}, "expected": "units array / array of arrays", "observed": repr((u1, u2))[:200]}
    return None


def fixtures_scope(limit=40):
    """Round trip on the repository's fixture documents (every result and every unit)."""
    import sharepoint2text
    root = os.path.join(REPO, "sharepoint2text/tests/resources")
    n = 0
    for dirpath, _d, files in sorted(os.walk(root)):
        if "password_protected" in dirpath:
            continue
        for f in sorted(files):
            p = os.path.join(dirpath, f)
            if os.path.getsize(p) > 3_000_000 or n >= limit:
                continue
            try:
                results = list(sharepoint2text.read_file(p))
            except Exception:  # noqa  (unsupported / failing fixtures are other properties' business)
                continue
            n += 1
            for r in results:
                fail = check_instance(r, {"fixture": os.path.relpath(p, REPO)})
                if fail:
                    return fail, n
                for u in r.iterate_units():
                    fail = check_instance(u, {"fixture": os.path.relpath(p, REPO), "unit": True})
                    if fail:
                        return fail, n
    return None, n


def find(req):
    ob = req.get("obligation", "") or ""
    kf = req.get("known_finding")
    if kf == "F6" or "roundtrip-any-key" in ob:
        a = f6_dataclass_level("_type", "PdfContent")
        b = f6_file_level()
        c = None
        if a is None:
            for k in MARKERS:
                c = c or f6_dataclass_level(k, "x")
        hit = a or b or c
        if hit:
            hit = dict(hit, reproduced=True)
            hit["observed"] = "; ".join(f"[{lbl}] {r['observed']}" for lbl, r in (("rows {'_type': 'PdfContent'}", a), ("real .xls, header `_bytes`", b)) if r)
            return hit
        return {"reproduced": False, "note": "marker keys in document mappings survive the round trip"}
    if "_get_cell_value" in ob and "xlsx" in (req.get("function") or ob):
        r = f5_xlsx_duration()
        if r:
            return dict(r, reproduced=True)
        return {"reproduced": False, "note": "an XLSX duration cell serialises"}
    if "cli.py" in ob:
        r = cli_shapes()
        return dict(r, reproduced=True) if r else {"reproduced": False, "note": "CLI payload shapes hold natively"}
    r, n = type_directed_scope(marker_keys=False)
    if r:
        return dict(r, reproduced=True)
    if "roundtrip" in ob:
        rk, _n = type_directed_scope(marker_keys=True, variants=(1, 2))
        hit = f6_dataclass_level("_type", "PdfContent") or rk
        if hit:
            return dict(hit, reproduced=True)
    r2 = cli_shapes()
    if r2:
        return dict(r2, reproduced=True)
    r3, m = fixtures_scope()
    if r3:
        return dict(r3, reproduced=True)
    r4 = f5_xlsx_duration()
    if r4 and ("store" in ob or "scalar" in ob):
        return dict(r4, reproduced=True)
    return {"reproduced": False, "note": f"BOUNDED native scope clean: {n} type-directed instances over all registered dataclasses, {m} fixture documents"}


def rerun(stored):
    return find({"obligation": stored.get("obligation", ""), "function": stored.get("target")})


if __name__ == "__main__":
    import logging
    logging.disable(logging.CRITICAL)
    if "--registry-dump" in sys.argv:
        print(json.dumps(registry_dump()))
    elif "--scope" in sys.argv:
        r, n = type_directed_scope(False)
        print(json.dumps({"failure": r, "instances": n}, default=repr))
        r, n = type_directed_scope(True)
        print(json.dumps({"with_marker_keys_failure": r, "instances": n}, default=repr))
        print(json.dumps({"cli": cli_shapes()}, default=repr))
        r, n = fixtures_scope()
        print(json.dumps({"fixtures_failure": r, "documents": n}, default=repr))
        print(json.dumps({"F5": f5_xlsx_duration()}, default=repr))
        print(json.dumps({"F6_dataclass": f6_dataclass_level(), "F6_file": f6_file_level()}, default=repr))
