"""Native replay for C05 (runs under /venv/bin/python on the real code; no z3).

* type-directed instance generation for every registered dataclass (every field populated from its type hint;
  strings drawn from a vocabulary that contains the encoding's markers `_type`, `_bytes`, `_bytesio`), then
  json.dumps(to_json) works; from_json(json.loads(json.dumps(to_json))) has the same type and identical to_json;
  excluding binary payloads nulls exactly the binary leaves.  BOUNDED: a finite family of instances per class.
* F6 witnesses: a mapping from document content whose key is a marker (dataclass level and a real .xls file).
* F5 witness: an XLSX duration cell.
* `--registry-dump`: the real reflective registry with hint shapes, for the cross-check of the AST-derived registry.
"""
import dataclasses
import io
import json
import os
import sys
import types
import typing

REPO = os.environ.get("VERIF_REPO", "/repo")
if REPO not in sys.path:
    sys.path.insert(0, REPO)

MARKERS = ("_type", "_bytes", "_bytesio")
STRINGS = ["", "x", "_type", "_bytes", "_bytesio", "PdfContent", "é中 \"q\"\n", "\ufeff lead", " pad\t", "caf\udce9", "\x00\x1f", "\U0001f600\u2028"]
SAFE_KEYS = ["k", "type", "bytes_", "Unnamed: 0", "__type", "__bytes", "___bytesio"]
PRIM = {str: 1, int: 2, float: 3, bool: 4}


# ----------------------------------------------------------- hint shapes --
def shape_of(tp):
    if tp is typing.Any:
        return "any"
    if tp in PRIM:
        return f"prim:{PRIM[tp]}"
    if tp is bytes:
        return "bytes"
    if tp is bytearray:
        return "bytearray"
    if tp is io.BytesIO:
        return "bytesio"
    if tp is type(None):
        return "none"
    origin = typing.get_origin(tp)
    args = typing.get_args(tp)
    if origin is typing.Union and len(args) == 2 and type(None) in args:
        return "opt[" + shape_of([a for a in args if a is not type(None)][0]) + "]"
    if origin is getattr(types, "UnionType", None) and len(args) == 2 and type(None) in args:
        return "u604[" + shape_of([a for a in args if a is not type(None)][0]) + "]"
    if origin is list:
        return "list[" + shape_of(args[0]) + "]" if args else "listbare"
    if origin is dict:
        return f"dict[{shape_of(args[0])},{shape_of(args[1])}]" if args else "dictbare"
    if isinstance(tp, type):
        return f"cls:{tp.__name__}"
    return f"other:{tp}"


def registry_dump():
    from sharepoint2text.parsing.extractors.serialization import _get_type_registry
    out = {}
    for name, cls in _get_type_registry().items():
        hints = typing.get_type_hints(cls)
        out[name] = [(f.name, shape_of(hints[f.name])) for f in dataclasses.fields(cls)]
    return out


# ------------------------------------------------------ instance generation --
class Gen:
    def __init__(self, variant, marker_keys=False):
        self.v = variant
        self.n = 0
        self.marker_keys = marker_keys
        from sharepoint2text.parsing.extractors.serialization import _get_type_registry
        self.reg = _get_type_registry()

    def tick(self):
        self.n += 1
        return self.n + self.v

    def string(self):
        return STRINGS[self.tick() % len(STRINGS)]

    def scalar(self):
        k = self.tick() % 6
        return [None, True, 7, -2.5, self.string(), 0][k]

    def implementers(self, proto):
        """Registered dataclasses usable where a Protocol / base class is annotated."""
        names = sorted(self.reg)
        if proto.__name__ == "ImageInterface":
            return [self.reg[n] for n in names if n.endswith("Image")]
        if proto.__name__ == "TableInterface":
            return [self.reg["TableData"]]
        subs = [self.reg[n] for n in names if isinstance(self.reg[n], type) and issubclass(self.reg[n], proto) and self.reg[n] is not proto] \
            if not getattr(proto, "_is_protocol", False) else []
        return subs

    def value(self, tp, depth):
        if tp is typing.Any:
            return self.scalar()
        if tp is str:
            return self.string()
        if tp is int:
            return [0, 1, -3, 2 ** 40][self.tick() % 4]
        if tp is float:
            return [0.0, 1.5, -2.25e10][self.tick() % 3]
        if tp is bool:
            return bool(self.tick() % 2)
        if tp is bytes:
            return [b"", b"\x00\xff_bytes", b"abc"][self.tick() % 3]
        if tp is bytearray:
            return bytearray(b"\x01\x02")
        if tp is io.BytesIO:
            b = io.BytesIO([b"", b"\x89PNG\x00\xff", b"_bytesio"][self.tick() % 3])
            if self.v % 2:
                b.seek(0, 2)           # position at the end: the payload must still be complete
            return b
        origin = typing.get_origin(tp)
        args = typing.get_args(tp)
        if origin is typing.Union or origin is getattr(types, "UnionType", None):
            non_none = [a for a in args if a is not type(None)]
            if self.v == 0 and type(None) in args:
                return None
            return self.value(non_none[0], depth)
        if origin is list:
            n = 0 if self.v == 0 else 2
            et = args[0] if args else typing.Any
            items = [self.value(et, depth + 1) for _ in range(n)]
            return tuple(items) if self.v == 4 and et in (str, int) else items     # tuples are encoded like lists
        if origin is dict:
            vt = args[1] if len(args) > 1 else typing.Any
            keys = (list(MARKERS[: 1 + self.tick() % 3]) if self.marker_keys else []) + SAFE_KEYS[: 1 + self.tick() % 3]
            return {} if self.v == 0 else {k: self.value(vt, depth + 1) for k in keys}
        if isinstance(tp, type):
            if dataclasses.is_dataclass(tp) and not getattr(tp, "_is_protocol", False):
                cands = [tp]
                if self.v >= 2:
                    cands = [tp] + self.implementers(tp)
                return self.instance(cands[self.tick() % len(cands)], depth + 1)
            impl = self.implementers(tp)
            if impl:
                return self.instance(impl[self.tick() % len(impl)], depth + 1)
        raise TypeError(f"no generator for hint {tp!r}")

    def instance(self, cls, depth=0):
        hints = typing.get_type_hints(cls)
        kw = {}
        for f in dataclasses.fields(cls):
            if not f.init:
                continue
            tp = hints[f.name]
            if depth > 3 and (f.default is not dataclasses.MISSING or f.default_factory is not dataclasses.MISSING):
                continue
            kw[f.name] = self.value(tp, depth)
        if self.v == 5:
            # "absent" instances: what extractors build when the source has no value -- None in every field whose default is
            # something else (DocMetadata.num_pages from a .doc without counts, EmailContent.reply_to from a .msg without Reply-To);
            # a None the constructor / __post_init__ of the class does not accept is left out
            for f in dataclasses.fields(cls):
                has_default = (f.default is not dataclasses.MISSING and f.default is not None) or f.default_factory is not dataclasses.MISSING
                if f.init and has_default and f.name in kw:
                    trial = dict(kw, **{f.name: None})
                    try:
                        cls(**trial)
                    except Exception:  # noqa
                        continue
                    kw = trial
        return cls(**kw)


def binfree(x):
    """x with exactly the binary leaves replaced by None (deep copy through the dataclass structure)."""
    if isinstance(x, (bytes, bytearray, io.BytesIO)):
        return None
    if dataclasses.is_dataclass(x) and not isinstance(x, type):
        return _Shadow(type(x).__name__, [(f.name, binfree(getattr(x, f.name))) for f in dataclasses.fields(x)])
    if isinstance(x, dict):
        return {k: binfree(v) for k, v in x.items()}
    if isinstance(x, (list, tuple, set)):
        return [binfree(v) for v in x]
    return x


class _Shadow:
    def __init__(self, name, fields):
        self.name, self.fields = name, fields


def shadow_json(x):
    """The encoding of a binary-free shadow, written from the property statement (not calling the library)."""
    if isinstance(x, _Shadow):
        d = {"_type": x.name}
        for k, v in x.fields:
            d[k] = shadow_json(v)
        return d
    if isinstance(x, dict):
        return {str(k): shadow_json(v) for k, v in x.items()}
    if isinstance(x, list):
        return [shadow_json(v) for v in x]
    return x


def check_instance(x, where):
    """-> None or a failure record."""
    from sharepoint2text.parsing.extractors.serialization import deserialize_extraction, serialize_extraction
    name = type(x).__name__
    try:
        j = x.to_json() if hasattr(x, "to_json") else serialize_extraction(x)
    except Exception as e:  # noqa
        return {"target": f"{name}.to_json", "inputs": where, "expected": "to_json() returns", "observed": f"{type(e).__name__}: {e}"}
    try:
        text = json.dumps(j)
    except Exception as e:  # noqa
        return {"target": f"{name}.to_json", "inputs": where, "expected": "json.dumps(to_json()) succeeds", "observed": f"{type(e).__name__}: {e}"}
    try:
        from sharepoint2text.parsing.extractors.data_types import ExtractionInterface
        y = ExtractionInterface.from_json(json.loads(text))          # the property's public entry point (round 7: was deserialize_extraction)
    except Exception as e:  # noqa
        return {"target": f"{name}.from_json", "inputs": where, "expected": "from_json(json.loads(json.dumps(to_json()))) returns",
                "observed": f"{type(e).__name__}: {e}"}
    if type(y) is not type(x):
        return {"target": f"{name}.from_json", "inputs": where, "expected": f"an instance of {name}", "observed": f"an instance of {type(y).__name__}"}
    j2 = serialize_extraction(y)
    if j2 != j or _first_diff(j, j2):
        return {"target": f"{name}.from_json", "inputs": where, "expected": "identical to_json()", "observed": _first_diff(j, j2)}
    d = payload_diff(x, y) or deep_diff(x, y)
    if d:
        return {"target": f"{name}.from_json", "inputs": where, "expected": "nested objects of the same types with identical image/attachment bytes", "observed": d}
    for meth in ("get_full_text",):
        if hasattr(x, meth):
            try:
                a_, b_ = getattr(x, meth)(), getattr(y, meth)()
            except Exception:  # noqa  (views of synthetic instances may not be computable: other properties)
                continue
            if a_ != b_:
                return {"target": f"{name}.from_json", "inputs": where, "expected": f"identical {meth}()", "observed": f"{a_!r:.60} vs {b_!r:.60}"}
    if hasattr(x, "iterate_units"):
        try:
            ua = [serialize_extraction(u) for u in x.iterate_units()]
            ub = [serialize_extraction(u) for u in y.iterate_units()]
        except Exception:  # noqa
            ua = ub = None
        if ua != ub:
            return {"target": f"{name}.from_json", "inputs": where, "expected": "identical units", "observed": _first_diff(ua, ub)}
    j0 = serialize_extraction(x, include_binary=False)
    want = shadow_json(binfree(x))
    if j0 != want:
        return {"target": f"serialize_extraction({name}, include_binary=False)", "inputs": where,
                "expected": "exactly the binary leaves null, nothing else changed", "observed": _first_diff(want, j0)}
    try:
        json.dumps(j0)
    except Exception as e:  # noqa
        return {"target": f"{name}.to_json(binary excluded)", "inputs": where, "expected": "json.dumps succeeds", "observed": f"{type(e).__name__}: {e}"}
    return None


def payload_diff(x, y, path="$"):
    """Binary leaves of x must come back as binary leaves with the same bytes."""
    if isinstance(x, io.BytesIO):
        return "" if isinstance(y, io.BytesIO) and y.getvalue() == x.getvalue() else f"{path}: BytesIO({x.getvalue()!r:.40}) came back as {_short(y)}"
    if isinstance(x, (bytes, bytearray)):
        return "" if isinstance(y, (bytes, bytearray)) and bytes(y) == bytes(x) else f"{path}: {bytes(x)!r:.40} came back as {_short(y)}"
    if dataclasses.is_dataclass(x) and not isinstance(x, type):
        if type(y) is not type(x):
            return f"{path}: {type(x).__name__} came back as {type(y).__name__}"
        for f in dataclasses.fields(x):
            d = payload_diff(getattr(x, f.name), getattr(y, f.name), f"{path}.{f.name}")
            if d:
                return d
        return ""
    if isinstance(x, dict) and isinstance(y, dict):
        for k in x:
            d = payload_diff(x[k], y.get(k), f"{path}[{k!r}]")
            if d:
                return d
        return ""
    if isinstance(x, (list, tuple)) and isinstance(y, (list, tuple)) and len(x) == len(y):
        for i, (a, b) in enumerate(zip(x, y)):
            d = payload_diff(a, b, f"{path}[{i}]")
            if d:
                return d
    return ""


def deep_diff(x, y, path="$"):
    """The restored object must hold the same data as the original: same scalars (type and value), same mapping keys (type,
    value, order), same sequence items (list / tuple / set are interchangeable: they share one encoding), same nested types."""
    if isinstance(x, (bytes, bytearray, io.BytesIO)) or isinstance(y, (bytes, bytearray, io.BytesIO)):
        return payload_diff(x, y, path)
    if dataclasses.is_dataclass(x) and not isinstance(x, type):
        if type(y) is not type(x):
            return f"{path}: {type(x).__name__} came back as {type(y).__name__}"
        for f in dataclasses.fields(x):
            d = deep_diff(getattr(x, f.name), getattr(y, f.name), f"{path}.{f.name}")
            if d:
                return d
        return ""
    if isinstance(x, dict):
        if not isinstance(y, dict):
            return f"{path}: mapping came back as {_short(y)}"
        kx, ky = list(x), list(y)
        if [(type(k), k) for k in kx] != [(type(k), k) for k in ky]:
            return f"{path}: mapping keys {kx[:5]!r} came back as {ky[:5]!r}"
        for k in kx:
            d = deep_diff(x[k], y[k], f"{path}[{k!r}]")
            if d:
                return d
        return ""
    if isinstance(x, (list, tuple, set, frozenset)):
        if not isinstance(y, (list, tuple, set, frozenset)) or len(x) != len(y):
            return f"{path}: sequence {_short(x)} came back as {_short(y)}"
        for i, (a, b) in enumerate(zip(list(x), list(y))):
            d = deep_diff(a, b, f"{path}[{i}]")
            if d:
                return d
        return ""
    if type(x) is not type(y) or x != y:
        return f"{path}: {x!r:.60} ({type(x).__name__}) came back as {y!r:.60} ({type(y).__name__})"
    return ""


def _short(v):
    if isinstance(v, io.BytesIO):
        return f"BytesIO({v.getvalue()!r:.40})"
    return f"{type(v).__name__} {v!r:.50}"


def _first_diff(a, b, path="$"):
    if type(a) is not type(b):
        return f"{path}: {a!r:.80} vs {b!r:.80}"
    if isinstance(a, dict):
        for k in list(a) + [k for k in b if k not in a]:
            if k not in a or k not in b:
                return f"{path}.{k}: key only on one side"
            d = _first_diff(a[k], b[k], f"{path}.{k}")
            if d:
                return d
        if list(a) != list(b):          # member order is part of the encoding (field order; column order of record rows)
            return f"{path}: members in a different order: {list(a)[:6]} vs {list(b)[:6]}"
        return ""
    if isinstance(a, list):
        if len(a) != len(b):
            return f"{path}: length {len(a)} vs {len(b)}"
        for i, (x, y) in enumerate(zip(a, b)):
            d = _first_diff(x, y, f"{path}[{i}]")
            if d:
                return d
        return ""
    return "" if a == b else f"{path}: {a!r:.80} vs {b!r:.80}"


def type_directed_scope(marker_keys=False, variants=(0, 1, 2, 3, 4, 5)):
    """Every registered dataclass x several variants; -> (first failure or None, number of instances checked)."""
    from sharepoint2text.parsing.extractors.serialization import _get_type_registry
    n = 0
    for name, cls in sorted(_get_type_registry().items()):
        if getattr(cls, "_is_protocol", False):
            continue
        for v in variants:
            try:
                x = Gen(v, marker_keys).instance(cls)
            except TypeError as e:
                return {"target": name, "inputs": {"variant": v}, "expected": "an instance can be generated from the type hints", "observed": str(e)}, n
            n += 1
            r = check_instance(x, {"class": name, "variant": v, "marker_keys": marker_keys})
            if r is not None:
                return r, n
    return None, n


# ---------------------------------------------------------------- witnesses --
def f6_dataclass_level(key="_type", val="PdfContent"):
    from sharepoint2text.parsing.extractors.data_types import XlsContent, XlsSheet
    x = XlsContent(sheets=[XlsSheet(name="S", data=[{key: val, "b": 1}], text="")])
    return check_instance(x, {"builder": "xls_sheet_rows", "args": [[{key: val, "b": 1}]]})


def f6_file_level():
    """A real .xls whose header cell is `_bytes` (fixture mwe.xls with the two shared strings colA/colB rewritten
    in place to `_bytes`/`co`; same total length, so no offsets change)."""
    from sharepoint2text.parsing.extractors.ms_legacy.xls_extractor import read_xls
    p = os.path.join(REPO, "sharepoint2text/tests/resources/legacy_ms/mwe.xls")
    raw = open(p, "rb").read()
    old, new = b"\x04\x00\x00colA\x04\x00\x00colB", b"\x06\x00\x00_bytes\x02\x00\x00co"
    if raw.count(old) != 1:
        return None
    r = list(read_xls(io.BytesIO(raw.replace(old, new)), "marker_header.xls"))[0]
    return check_instance(r, {"file": "tests/resources/legacy_ms/mwe.xls with header cell A1 renamed to `_bytes`", "rows": r.sheets[0].data})


def f5_xlsx_duration():
    import datetime
    import openpyxl
    from sharepoint2text.parsing.extractors.ms_modern.xlsx_extractor import read_xlsx
    wb = openpyxl.Workbook()
    ws = wb.active
    ws.append(["name", "took"])
    ws.append(["a", datetime.timedelta(hours=1, minutes=30)])
    buf = io.BytesIO()
    wb.save(buf)
    buf.seek(0)
    r = list(read_xlsx(buf, "duration.xlsx"))[0]
    fail = check_instance(r, {"file": "XLSX with cell B2 = duration 1:30:00 (openpyxl timedelta)", "sheet_data": repr(r.sheets[0].data)})
    if fail is None:
        for u in r.iterate_units():
            fail = fail or check_instance(u, {"file": "XLSX with a duration cell", "unit": True})
    return fail


def cli_shapes():
    """--json / --json-unit: object for one result, array for several; equal to to_json."""
    from sharepoint2text import cli
    from sharepoint2text.parsing.extractors.data_types import EmailAddress, EmailAttachment, EmailContent, PlainTextContent, RtfContent, RtfImage
    from sharepoint2text.parsing.extractors.serialization import serialize_extraction
    r0 = _cli_shapes_for(PlainTextContent(content="one"), PlainTextContent(content="two"))
    if r0:
        return r0
    # results that carry binary payloads: the include_binary flag must reach every result and every unit
    return _cli_shapes_for(RtfContent(full_text="t", images=[RtfImage(image_type="png", data=b"\x89PNG", image_index=1)]),
                           EmailContent(from_email=EmailAddress(), body_plain="b", attachments=[EmailAttachment(filename="f", mime_type="m", data=io.BytesIO(b"att"))]))


def _cli_shapes_for(a, b):
    from sharepoint2text import cli
    from sharepoint2text.parsing.extractors.serialization import serialize_extraction
    for binary in (False, True):
        try:
            one = cli._serialize_results([a], include_binary=binary)
            many = cli._serialize_results([a, b], include_binary=binary)
            none = cli._serialize_results([], include_binary=binary)
        except Exception as e:  # noqa
            return {"target": "cli._serialize_results", "inputs": {"include_binary": binary, "results": "0, 1 or 2 results"},
                    "expected": "object for one result, array otherwise", "observed": f"{type(e).__name__}: {e}"}
        if one != serialize_extraction(a, include_binary=binary) or many != [serialize_extraction(x, include_binary=binary) for x in (a, b)] or none != []:
            return {"target": "cli._serialize_results", "inputs": {"include_binary": binary}, "expected": "object for one, array otherwise", "observed": repr((one, many))[:200]}
        u1 = cli._serialize_unit_results([a], include_binary=binary)
        u2 = cli._serialize_unit_results([a, b], include_binary=binary)
        if u1 != [serialize_extraction(u, include_binary=binary) for u in a.iterate_units()] or \
                u2 != [[serialize_extraction(u, include_binary=binary) for u in x.iterate_units()] for x in (a, b)]:
            return {"target": "cli._serialize_unit_results", "inputs": {"include_binary": binary}, "expected": "units array / array of arrays", "observed": repr((u1, u2))[:200]}
    return None


def fixtures_scope(limit=40):
    """Round trip on the repository's fixture documents (every result and every unit)."""
    import sharepoint2text
    root = os.path.join(REPO, "sharepoint2text/tests/resources")
    n = 0
    for dirpath, _d, files in sorted(os.walk(root)):
        if "password_protected" in dirpath:
            continue
        for f in sorted(files):
            p = os.path.join(dirpath, f)
            if os.path.getsize(p) > 3_000_000 or n >= limit:
                continue
            try:
                results = list(sharepoint2text.read_file(p))
            except Exception:  # noqa  (unsupported / failing fixtures are other properties' business)
                continue
            n += 1
            for r in results:
                fail = check_instance(r, {"fixture": os.path.relpath(p, REPO)})
                if fail:
                    return fail, n
                for u in r.iterate_units():
                    fail = check_instance(u, {"fixture": os.path.relpath(p, REPO), "unit": True})
                    if fail:
                        return fail, n
    return None, n


# ------------------------------------------------------ directed searches --
# Each returns None or a failure record {"target", "inputs", "expected", "observed"}; all are BOUNDED scopes.
def _pattern(n):
    base = bytes(range(256)) * 16
    return (base * (n // len(base) + 1))[:n]


def module_int_constants(mod, lo=8, hi=1 << 23):
    return sorted({v for k, v in vars(mod).items() if isinstance(v, int) and not isinstance(v, bool) and lo <= v <= hi})


def b64_helpers_scope():
    """The four base64 helpers at boundary sizes: small sizes, and around every integer constant of the module
    (block / threshold sizes), for bytes, bytearray and streams at position 0 / middle / end."""
    from sharepoint2text.parsing.extractors import serialization as S
    import base64
    # round 8: the helpers are located by their role in the wire format (contracts/c05roles.py), not by name: a renamed private
    # helper is still exercised; a helper that cannot be located is replaced by the same payload through the public API
    # (the harness's own failed lookup must never be reported as the library's failure)
    try:
        from contracts.c05roles import b64_roles
        with open(S.__file__, encoding="utf-8") as fh:
            roles = b64_roles(fh.read())
    except Exception:  # noqa
        roles = {}
    helper = lambda canon: getattr(S, roles.get(canon, canon) or "", None) if (roles.get(canon, canon)) else None
    enc_b, dec_b, enc_io, dec_io = (helper(n_) for n_ in ("_bytes_to_base64", "_base64_to_bytes", "_bytesio_to_base64", "_base64_to_bytesio"))
    sizes = {0, 1, 2, 3, 4, 5, 6, 7, 57, 58, 76, 77, 255, 256, 1023, 1025, 4097, 65537}
    for c in module_int_constants(S):
        sizes |= {c - 1, c, c + 1, c + 2, 2 * c, 2 * c + 1, 3 * c + 1}
    for n in sorted(x for x in sizes if x >= 0):
        data = _pattern(n)
        want = base64.b64encode(data).decode("ascii")
        if not (callable(enc_b) and callable(dec_b)):
            api = b64_api_level(n)
            if api:
                return api
        for label, arg in (("bytes", data), ("bytearray", bytearray(data))) if callable(enc_b) and callable(dec_b) else ():
            try:
                enc = enc_b(arg)
                back = dec_b(enc)
            except Exception as e:  # noqa
                return {"target": "serialization._bytes_to_base64", "inputs": {"kind": label, "length": n}, "expected": "base64 text that decodes to the payload",
                        "observed": f"{type(e).__name__}: {e}"}
            if not isinstance(enc, str) or back != data or enc != want:
                return {"target": "serialization._bytes_to_base64", "inputs": {"kind": label, "length": n, "payload": "bytes(range(256)) repeated"},
                        "expected": "the base64 text of the payload; _base64_to_bytes restores all of it",
                        "observed": f"restored {len(back)} of {n} bytes; text length {len(enc)} vs {len(want)}"}
        if not (callable(enc_io) and callable(dec_io)):
            api = b64_api_level_stream(n)
            if api:
                return api
        for pos in sorted({0, n // 2, n}) if callable(enc_io) and callable(dec_io) else ():
            buf = io.BytesIO(data)
            buf.seek(pos)
            try:
                enc = enc_io(buf)
                back = dec_io(enc)
            except Exception as e:  # noqa
                return {"target": "serialization._bytesio_to_base64", "inputs": {"length": n, "position": pos}, "expected": "base64 text of the whole payload",
                        "observed": f"{type(e).__name__}: {e}"}
            if enc != want or back.getvalue() != data or buf.tell() != pos:
                return {"target": "serialization._bytesio_to_base64", "inputs": {"length": n, "position": pos},
                        "expected": "whole payload encoded, position restored, payload restored",
                        "observed": f"restored {len(back.getvalue())} of {n} bytes, position {buf.tell()}"}
    return None


def b64_api_level(n):
    """The same failure through the public API: an image whose bytes field has the failing size."""
    from sharepoint2text.parsing.extractors.data_types import RtfContent, RtfImage
    x = RtfContent(images=[RtfImage(image_type="png", data=_pattern(n), image_index=1)])
    return check_instance(x, {"builder": "RtfContent(images=[RtfImage(data=<payload>)])", "payload_length": n})


def b64_api_level_stream(n):
    """A stream payload of the given size through the public API, at three cursor positions (used when a stream helper of
    serialization.py cannot be located)."""
    from sharepoint2text.parsing.extractors.data_types import EmailAttachment
    for pos in sorted({0, n // 2, n}):
        buf = io.BytesIO(_pattern(n))
        buf.seek(pos)
        try:
            x = EmailAttachment(filename="a.bin", mime_type="application/octet-stream", data=buf)
        except Exception:  # noqa  (constructor signature changed: not this scope's business)
            return None
        fail = check_instance(x, {"builder": "EmailAttachment(data=<stream>)", "payload_length": n, "position": pos})
        if fail:
            return fail
        if buf.tell() != pos:
            return {"target": "serialize_extraction(EmailAttachment)", "inputs": {"payload_length": n, "position": pos}, "expected": "stream position restored",
                    "observed": f"position {buf.tell()}"}
    return None


NORM_TOKENS = [" ", "\n", "\t", "﻿", " ", "​", "\x00", "x", "é"]


def post_init_scope(max_len=3):
    """Dataclasses with a __post_init__: the normalisation must be idempotent, otherwise from_json (which runs the
    constructor again) changes to_json.  Every str field gets every token sequence up to max_len over whitespace /
    BOM / NBSP / zero-width / NUL / letters."""
    import itertools
    from sharepoint2text.parsing.extractors.serialization import _get_type_registry
    seqs = ["".join(t) for k in range(1, max_len + 1) for t in itertools.product(NORM_TOKENS, repeat=k)]
    n = 0
    for name, cls in sorted(_get_type_registry().items()):
        if "__post_init__" not in cls.__dict__ or getattr(cls, "_is_protocol", False):
            continue
        hints = typing.get_type_hints(cls)
        str_fields = [f.name for f in dataclasses.fields(cls) if f.init and hints[f.name] in (str, typing.Optional[str])]
        if not str_fields:
            continue
        base = Gen(1).instance(cls)
        for fld in str_fields:
            for sv_ in seqs:
                kw = {f.name: getattr(base, f.name) for f in dataclasses.fields(cls) if f.init}
                kw[fld] = sv_
                try:
                    x = cls(**kw)
                except Exception:  # noqa  (constructor rejects the value: not an instance)
                    continue
                n += 1
                r = check_instance(x, {"class": name, "field": fld, "constructed_with": sv_, "stored": getattr(x, fld, None)})
                if r is not None:
                    return r, n
    return None, n


ODS_NS = ('xmlns:office="urn:oasis:names:tc:opendocument:xmlns:office:1.0" xmlns:table="urn:oasis:names:tc:opendocument:xmlns:table:1.0" '
          'xmlns:text="urn:oasis:names:tc:opendocument:xmlns:text:1.0"')


def build_ods(cells):
    """cells: list of (attribute string, text) -> bytes of an .ods with header row + one row."""
    import zipfile
    from xml.sax.saxutils import escape
    hdr = "".join(f'<table:table-cell office:value-type="string"><text:p>c{i}</text:p></table:table-cell>' for i in range(len(cells)))
    row = "".join(f'<table:table-cell {a}><text:p>{escape(t)}</text:p></table:table-cell>' for a, t in cells)
    content = (f'<?xml version="1.0"?><office:document-content {ODS_NS}><office:body><office:spreadsheet><table:table table:name="S">'
               f'<table:table-row>{hdr}</table:table-row><table:table-row>{row}</table:table-row></table:table></office:spreadsheet></office:body>'
               f'</office:document-content>')
    buf = io.BytesIO()
    with zipfile.ZipFile(buf, "w", zipfile.ZIP_DEFLATED) as z:
        z.writestr("mimetype", "application/vnd.oasis.opendocument.spreadsheet")
        z.writestr("content.xml", content)
        z.writestr("META-INF/manifest.xml", '<?xml version="1.0"?><manifest:manifest xmlns:manifest="urn:oasis:names:tc:opendocument:xmlns:manifest:1.0"/>')
    return buf.getvalue()


def ods_cells_scope():
    """Every ODF cell value type x a family of attribute values (whole, fractional, negative, exponent, text, empty)."""
    from sharepoint2text.parsing.extractors.open_office.ods_extractor import read_ods
    numbers = ["0", "1", "-3", "19.99", "0.1", "-1234.5", "1e3", "1E-2", "12345678901234567890", "abc", ""]
    cases = []
    for vt in ("float", "currency", "percentage"):
        cases += [(f'office:value-type="{vt}" office:value="{v}"', v or "t") for v in numbers]
    cases += [(f'office:value-type="date" office:date-value="{v}"', v or "t") for v in ("2024-01-02", "2024-01-02T03:04:05", "garbage", "")]
    cases += [(f'office:value-type="time" office:time-value="{v}"', v or "t") for v in ("PT1H30M00S", "PT0S", "")]
    cases += [(f'office:value-type="boolean" office:boolean-value="{v}"', v or "t") for v in ("true", "false", "TRUE", "x", "")]
    cases += [('office:value-type="string"', v) for v in ("text", "_type", "")] + [("", "untyped"), ('office:value-type="void"', "v")]
    n = 0
    for attrs, text in cases:
        try:
            results = list(read_ods(io.BytesIO(build_ods([(attrs, text)])), "cell.ods"))
        except Exception:  # noqa  (the extractor refusing the document is another property's business)
            continue
        n += 1
        for r in results:
            where = {"file": ".ods with one data cell", "cell": f"<table:table-cell {attrs}><text:p>{text}</text:p>", "sheet_data": repr(r.sheets[0].data) if r.sheets else None}
            fail = check_instance(r, where)
            for u in ([] if fail else r.iterate_units()):
                fail = fail or check_instance(u, dict(where, unit=True))
            if fail:
                return fail, n
    return None, n


def xlsx_cells_scope():
    """Every cell value kind openpyxl can write: numbers, text, booleans, date/time kinds, durations, Decimal, formulas, errors."""
    import datetime
    import decimal
    import openpyxl
    from sharepoint2text.parsing.extractors.ms_modern.xlsx_extractor import read_xlsx
    values = [("int", 7), ("big int", 2 ** 53 + 1), ("float", -2.5), ("text", "t"), ("marker text", "_bytes"), ("bool", True), ("none", None),
              ("datetime", datetime.datetime(2024, 1, 2, 3, 4, 5)), ("date", datetime.date(2024, 1, 2)), ("time", datetime.time(3, 4, 5)),
              ("duration", datetime.timedelta(hours=1, minutes=30)), ("long duration", datetime.timedelta(days=2, seconds=1)),
              ("decimal", decimal.Decimal("19.99")), ("formula", "=1+1"), ("error text", "#DIV/0!")]
    n = 0
    for label, v in values:
        wb = openpyxl.Workbook()
        ws = wb.active
        for where_ in ("data", "header"):
          wb = openpyxl.Workbook()
          ws = wb.active
          ws.append(["name", "value"] if where_ == "data" else ["name", v])
          ws.append(["a", v] if where_ == "data" else ["a", 1])
          buf = io.BytesIO()
          try:
            wb.save(buf)
            buf.seek(0)
            results = list(read_xlsx(buf, "cell.xlsx"))
          except Exception:  # noqa
            continue
          n += 1
          for r in results:
            where = {"file": f"XLSX with {'cell B2' if where_ == 'data' else 'header cell B1'} = {label} ({v!r})", "sheet_data": repr(r.sheets[0].data) if r.sheets else None}
            fail = check_instance(r, where)
            for u in ([] if fail else r.iterate_units()):
                fail = fail or check_instance(u, dict(where, unit=True))
            if fail:
                return fail, n
    return None, n


def xlsx_positions_scope():
    """Cell value kinds by POSITION: one sheet per depth p with every non-plain kind openpyxl can return (datetime, date, time,
    duration, Decimal) in data row p and nowhere above it -- once in a column that is empty above, once in a column holding plain
    values above, once with a value of another non-plain kind in data row 1 of the same column -- and the same at the last of a run of
    trailing rows.  p ranges over small depths, powers of two + 1 and c-1 .. c+2 around every integer constant c of xlsx_extractor.py
    (a conversion that samples the leading rows, the first non-empty cell of a column or a row window has its threshold there)."""
    import datetime
    import decimal
    import openpyxl
    from sharepoint2text.parsing.extractors.ms_modern import xlsx_extractor as X
    special = [("datetime", datetime.datetime(2024, 1, 2, 3, 4, 5)), ("date", datetime.date(2024, 1, 2)), ("time", datetime.time(3, 4, 5)),
               ("duration", datetime.timedelta(hours=1, minutes=30)), ("decimal", decimal.Decimal("19.99"))]
    depths = {1, 2, 3, 17, 129, 1025}
    consts = set(module_int_constants(X, lo=2, hi=70000))
    try:                                                     # literals inside function bodies as well
        import ast
        import inspect
        consts.update(x.value for x in ast.walk(ast.parse(inspect.getsource(X)))
                      if isinstance(x, ast.Constant) and isinstance(x.value, int) and not isinstance(x.value, bool) and 2 <= x.value <= 70000)
    except Exception:  # noqa
        pass
    named = set(module_int_constants(X, lo=2, hi=70000))
    deep, literal_depths = set(), set()
    for c in consts:
        if c > 4100:
            deep.add(c + 1)                                  # one narrow sheet just beyond a large constant
        elif c in named:
            depths.update(d for d in (c - 1, c, c + 1, c + 2) if d >= 1)
        else:
            literal_depths.update((c, c + 1))                # literals of function bodies: one shared sheet, a column pair per depth
    all_special = special
    n = 0
    if literal_depths:
        ds = sorted(literal_depths)
        wb = openpyxl.Workbook()
        ws = wb.active
        ws.append(["id"] + [f"empty-until-{d}" for d in ds] + [f"plain-until-{d}" for d in ds])
        for i in range(1, ds[-1] + 1):
            ws.append([i] + [all_special[j % 5][1] if d == i else None for j, d in enumerate(ds)]
                      + [all_special[(j + 2) % 5][1] if d == i else (i if d > i else None) for j, d in enumerate(ds)])
        buf = io.BytesIO()
        try:
            wb.save(buf)
            buf.seek(0)
            results = list(X.read_xlsx(buf, "cells.xlsx"))
        except Exception:  # noqa
            results = []
        n += 1 if results else 0
        fail = _check_results(results, {"file": f"XLSX, {ds[-1]} data rows: per depth d in {ds} one column empty above data row d and one holding integers above it, "
                                                 "each with a datetime/date/time/duration/Decimal value in data row d"})
        if fail:
            return fail, n
    for p in sorted(depths | deep):
        special = all_special if p in depths else [all_special[0], all_special[3]]
        wb = openpyxl.Workbook()
        ws = wb.active
        k = len(special)
        ws.append(["id"] + [f"empty-then-{l}" for l, _ in special] + [f"plain-then-{l}" for l, _ in special] + [f"other-then-{l}" for l, _ in special])
        for i in range(1, p):
            other = [special[(j + 1) % k][1] for j in range(k)] if i == 1 else [None] * k
            ws.append([i] + [None] * k + [("x" if j % 2 else i) for j in range(k)] + other)
        vals = [v for _, v in special]
        ws.append([p] + vals + vals + vals)
        for i in range(3):
            ws.append([p + 1 + i] + [None] * k + ["y"] * k + [None] * k)
        ws.append([p + 4] + vals[::-1] + [None] * (2 * k))
        buf = io.BytesIO()
        try:
            wb.save(buf)
            buf.seek(0)
            results = list(X.read_xlsx(buf, "cells.xlsx"))
        except Exception:  # noqa
            continue
        n += 1
        for r in results:
            where = {"file": f"XLSX, {p + 4} data rows x {3 * k + 1} columns: first {'/'.join(l for l, _ in special)} values of their columns in data row {p} "
                             f"(columns empty above / plain values above / another kind in data row 1), again in data row {p + 4}"}
            fail = check_instance(r, where)
            for u in ([] if fail else r.iterate_units()):
                fail = fail or check_instance(u, dict(where, unit=True))
            if fail:
                return fail, n
    return None, n


MARKER_TEXTS = ["_bytes", "_bytesio", "_type", "PdfContent"]


def _check_results(results, where):
    for r in results:
        fail = check_instance(r, where)
        for u in ([] if fail else r.iterate_units()):
            fail = fail or check_instance(u, dict(where, unit=True))
        if fail:
            return fail
    return None


def marker_slots_scope():
    """Documents in which EVERY author-controlled string slot the available writers offer holds a word of the marker
    vocabulary: document content must never be mistaken for the encoding's markers.  (The recorded finding F6 -- XLS
    header cells -- has no writer here and is replayed separately.)"""
    n = 0
    # ---- XLSX through openpyxl: sheet titles, cells, header cells, comments, hyperlinks, defined names, document properties
    import openpyxl
    from openpyxl.comments import Comment
    from openpyxl.workbook.defined_name import DefinedName
    from sharepoint2text.parsing.extractors.ms_modern.xlsx_extractor import read_xlsx
    for word in MARKER_TEXTS:
        wb = openpyxl.Workbook()
        ws = wb.active
        ws.title = word[:31]
        ws.append([word, "b", "_type"])
        ws.append([word, 2, "PdfContent"])
        ws["A2"].comment = Comment(word, word)
        ws["B2"].hyperlink = "http://example.invalid/" + word
        try:
            wb.defined_names[word] = DefinedName(word, attr_text=f"'{ws.title}'!$A$1:$B$2")
            wb.defined_names["_type"] = DefinedName("_type", attr_text="PdfContent")
        except Exception:  # noqa  (older openpyxl API)
            try:
                wb.defined_names.append(DefinedName(word, attr_text=f"'{ws.title}'!$A$1:$B$2"))
            except Exception:  # noqa
                pass
        for prop in ("title", "subject", "creator", "keywords", "description", "category", "lastModifiedBy", "identifier", "language", "version", "contentStatus"):
            try:
                setattr(wb.properties, prop, word)
            except Exception:  # noqa
                pass
        buf = io.BytesIO()
        try:
            wb.save(buf)
            buf.seek(0)
            results = list(read_xlsx(buf, word + ".xlsx"))
        except Exception:  # noqa
            continue
        n += 1
        fail = _check_results(results, {"file": f"XLSX whose sheet title, cells, comment, hyperlink, defined names ({word!r}, '_type' -> 'PdfContent') and document "
                                                f"properties are {word!r}"})
        if fail:
            return fail, n
    # ---- ODS: sheet name, cell texts, annotation
    from sharepoint2text.parsing.extractors.open_office.ods_extractor import read_ods
    for word in MARKER_TEXTS:
        data = build_ods([('office:value-type="string"', word), ('office:value-type="string"', "PdfContent")]).replace(b'table:name="S"', f'table:name="{word}"'.encode())
        try:
            results = list(read_ods(io.BytesIO(data), word + ".ods"))
        except Exception:  # noqa
            continue
        n += 1
        fail = _check_results(results, {"file": f".ods whose sheet name and cell texts are {word!r}"})
        if fail:
            return fail, n
    # ---- HTML: title, meta, headings, link text / href, attribute names, table cells
    from sharepoint2text.parsing.extractors.html_extractor import read_html
    for word in MARKER_TEXTS:
        doc = (f'<html><head><title>{word}</title><meta name="{word}" content="{word}"><meta name="author" content="{word}"></head><body>'
               f'<h1 id="{word}">{word}</h1><p {word}="{word}">{word}</p><a href="{word}" title="{word}">{word}</a>'
               f'<table><tr><th>{word}</th><th>_type</th></tr><tr><td>{word}</td><td>PdfContent</td></tr></table></body></html>')
        try:
            results = list(read_html(io.BytesIO(doc.encode("utf-8")), word + ".html"))
        except Exception:  # noqa
            continue
        n += 1
        fail = _check_results(results, {"file": f"HTML whose title, meta names/contents, heading, attribute names/values, link and table cells are {word!r}"})
        if fail:
            return fail, n
    # ---- e-mail (RFC 822): header values, display names, body, attachment name / bytes
    from email.message import EmailMessage
    from sharepoint2text.parsing.extractors.mail.eml_email_extractor import read_eml_format_mail
    for word in MARKER_TEXTS:
        msg = EmailMessage()
        msg["From"] = f"{word} <{word}@example.invalid>"
        msg["To"] = f"{word} <to@example.invalid>"
        msg["Cc"] = f"_type <{word}@example.invalid>"
        msg["Subject"] = word
        msg["Message-ID"] = f"<{word}@example.invalid>"
        msg.set_content(word)
        msg.add_attachment(word.encode(), maintype="application", subtype="octet-stream", filename=word)
        try:
            results = list(read_eml_format_mail(io.BytesIO(msg.as_bytes()), word + ".eml"))
        except Exception:  # noqa
            continue
        n += 1
        fail = _check_results(results, {"file": f".eml whose names, addresses, subject, body and attachment name are {word!r}"})
        if fail:
            return fail, n
    # ---- RTF: text, info group, font / style names, bookmark, field
    from sharepoint2text.parsing.extractors.ms_legacy.rtf_extractor import read_rtf
    for word in MARKER_TEXTS:
        doc = ("{\\rtf1\\ansi{\\fonttbl{\\f0 " + word + ";}}{\\stylesheet{\\s0 " + word + ";}}{\\info{\\title " + word + "}{\\author " + word + "}{\\keywords " + word + "}}"
               "{\\*\\bkmkstart " + word + "}" + word + "{\\*\\bkmkend " + word + "}\\par {\\field{\\*\\fldinst HYPERLINK \"" + word + "\"}{\\fldrslt " + word + "}}\\par}")
        try:
            results = list(read_rtf(io.BytesIO(doc.encode("ascii")), word + ".rtf"))
        except Exception:  # noqa
            continue
        n += 1
        fail = _check_results(results, {"file": f"RTF whose text, info fields, font / style names, bookmark and hyperlink are {word!r}"})
        if fail:
            return fail, n
    # ---- plain text / CSV
    from sharepoint2text.parsing.extractors.plain_extractor import read_plain_text
    for word in MARKER_TEXTS:
        for name, body in ((word + ".txt", word), (word + ".csv", f"{word},_type\n{word},PdfContent\n")):
            try:
                results = list(read_plain_text(io.BytesIO(body.encode()), name))
            except Exception:  # noqa
                continue
            n += 1
            fail = _check_results(results, {"file": f"{name} with content {body!r}"})
            if fail:
                return fail, n
    return None, n


def xls_cells_scope():
    """Function level (no .xls writer is available): the real _get_cell_values on real xlrd Cell objects of every cell
    type x boundary values (date serials below 1 = time of day, whole / fractional numbers, error codes), both date modes."""
    import xlrd
    from sharepoint2text.parsing.extractors.ms_legacy import xls_extractor as X

    class Book:
        def __init__(self, datemode):
            self.datemode = datemode
    cases = [(xlrd.XL_CELL_EMPTY, ""), (xlrd.XL_CELL_BLANK, ""), (xlrd.XL_CELL_TEXT, "t"), (xlrd.XL_CELL_TEXT, "_type"), (xlrd.XL_CELL_TEXT, "")]
    cases += [(xlrd.XL_CELL_NUMBER, v) for v in (0.0, 1.0, -3.0, 2.5, 1e20, -0.0)]
    cases += [(xlrd.XL_CELL_DATE, v) for v in (0.0, 0.25, 0.5, 0.999988, 1.0, 1.5, 59.0, 60.0, 61.5, 36526.0, 36526.75, 2958465.99, -1.0, 1e10)]
    cases += [(xlrd.XL_CELL_BOOLEAN, v) for v in (0, 1)] + [(xlrd.XL_CELL_ERROR, v) for v in (0, 7, 15, 42)]
    n = 0
    for datemode in (0, 1):
        for ctype, value in cases:
            cell = xlrd.sheet.Cell(ctype, value)
            try:
                native, text = X._get_cell_values(cell, Book(datemode))
            except Exception:  # noqa
                continue
            n += 1
            ok = native is None or type(native) in (bool, int, float, str)
            if ok:
                try:
                    json.dumps({"v": native})
                except Exception:  # noqa
                    ok = False
            if not ok or not isinstance(text, str):
                return {"target": "xls_extractor._get_cell_values", "inputs": {"cell": f"xlrd.sheet.Cell(ctype={ctype}, value={value!r})", "datemode": datemode},
                        "expected": "a JSON-able scalar (None/bool/int/float/str) for XlsSheet.data", "observed": f"{type(native).__name__}: {native!r}"}, n
    return None, n


def metadata_path_scope():
    """FileMetadataInterface.populate_from_path / the extractors' `path` argument for every kind of path a caller may pass:
    None, str, pathlib.Path; existing and not on disk; relative, absolute, with '//' and './' segments."""
    import pathlib
    import tempfile
    from sharepoint2text.parsing.extractors import data_types as D
    from sharepoint2text.parsing.extractors.plain_extractor import read_plain_text
    n = 0
    with tempfile.TemporaryDirectory() as d:
        real = os.path.join(d, "real.txt")
        open(real, "w").write("x")
        paths = [None, "virtual/a.txt", "a.zip!/x//y/./z.txt", real, pathlib.Path("virtual/b.txt"), pathlib.Path(real), pathlib.PurePosixPath("c/d.txt"),
                 pathlib.Path("/nonexistent-root-dir/e.txt"), ""]
        for pth in paths:
            for label, make in (("FileMetadataInterface().populate_from_path", lambda q: _populated(D.FileMetadataInterface(), q)),
                                ("read_plain_text(BytesIO, path)", lambda q: list(read_plain_text(io.BytesIO(b"text"), q))[0])):
                try:
                    obj = make(pth)
                except Exception:  # noqa  (rejecting a path is C01's business)
                    continue
                n += 1
                fail = check_instance(obj, {"call": label, "path": repr(pth)})
                if fail:
                    return fail, n
    return None, n


def _populated(meta, pth):
    meta.populate_from_path(pth)
    return meta


def xls_workbook_scope():
    """The real xls_extractor._read_content on stand-in xlrd workbooks (no .xls writer is available): header rows and data rows
    holding every cell type (text, number, date, boolean, error, empty), duplicates and blanks as header texts."""
    import xlrd
    from sharepoint2text.parsing.extractors.ms_legacy import xls_extractor as X
    from sharepoint2text.parsing.extractors.data_types import XlsContent
    C = xlrd.sheet.Cell

    class Sheet:
        def __init__(self, name, rows):
            self.name, self.rows = name, rows
            self.nrows, self.ncols = len(rows), max((len(r) for r in rows), default=0)

        def cell(self, r, c):
            return self.rows[r][c] if c < len(self.rows[r]) else C(xlrd.XL_CELL_EMPTY, "")

        def row(self, r):
            return self.rows[r]

        def cell_value(self, r, c):
            return self.cell(r, c).value

    class Book:
        datemode = 0

        def __init__(self, sheets):
            self._s = sheets
            self.nsheets = len(sheets)

        def sheets(self):
            return self._s

        def sheet_by_index(self, i):
            return self._s[i]

        def sheet_names(self):
            return [s.name for s in self._s]

    T, N, D_, B, E, Z = xlrd.XL_CELL_TEXT, xlrd.XL_CELL_NUMBER, xlrd.XL_CELL_DATE, xlrd.XL_CELL_BOOLEAN, xlrd.XL_CELL_ERROR, xlrd.XL_CELL_EMPTY
    headers = [[C(T, "a"), C(T, "b")], [C(N, 2023.0), C(N, 1.5)], [C(B, 1), C(T, "x")], [C(D_, 36526.0), C(D_, 0.5)], [C(E, 7), C(Z, "")],
               [C(T, "dup"), C(T, "dup")], [C(T, ""), C(T, " ")]]
    body = [C(T, "v"), C(N, 2.0)], [C(B, 0), C(D_, 1.5)]
    n = 0
    old = xlrd.open_workbook
    try:
        for hdr in headers:
            book = Book([Sheet("S", [hdr] + [list(r) for r in body]), Sheet("empty", [])])
            xlrd.open_workbook = lambda *a, **k: book
            try:
                sheets = X._read_content(io.BytesIO(b""))
            except Exception:  # noqa
                continue
            n += 1
            x = XlsContent(sheets=sheets, full_text="t")
            where = {"workbook": "stand-in xlrd Book", "header_row": [f"Cell(ctype={c.ctype}, value={c.value!r})" for c in hdr], "records": repr(sheets[0].data)[:200]}
            fail = check_instance(x, where)
            for u in ([] if fail else x.iterate_units()):
                fail = fail or check_instance(u, dict(where, unit=True))
            if fail:
                return fail, n
    finally:
        xlrd.open_workbook = old
    return None, n


def cli_stdout_scope():
    """cli.main --json / --json-unit (--binary) on a real encoded stdout: exit 0, stdout is strict UTF-8 and parses to exactly
    the JSON of the results' to_json (object for one result, array otherwise).  Inputs include names / text with lone
    surrogates (surrogateescape of non-UTF-8 file names), non-BMP and control characters, and an archive with several members."""
    import tarfile
    import tempfile
    import sharepoint2text
    from sharepoint2text import cli
    from sharepoint2text.parsing.extractors.serialization import serialize_extraction
    n = 0
    with tempfile.TemporaryDirectory() as d:
        files = []
        def put(name, data):
            path = os.path.join(os.fsencode(d), name) if isinstance(name, bytes) else os.path.join(d, name)
            with open(path, "wb") as fh:
                fh.write(data)
            files.append(os.fsdecode(path) if isinstance(path, bytes) else path)
        put("plain.txt", b"plain ascii\n")
        put("unicode.txt", "héllo 中文 \U0001f600   end\n".encode("utf-8"))
        put("ctrl.txt", b"tab\tbell\x07 nul-free\n")
        try:
            put(b"caf\xe9.txt", b"name is not UTF-8\n")
        except OSError:
            pass
        tpath = os.path.join(d, "two.tar")
        with tarfile.open(tpath, "w") as tf:
            for nm, body in (("a.txt", b"first"), ("bé.txt", b"second")):
                ti = tarfile.TarInfo(nm)
                ti.size = len(body)
                tf.addfile(ti, io.BytesIO(body))
        files.append(tpath)
        for path in files:
            try:
                results = list(sharepoint2text.read_file(path))
            except Exception:  # noqa
                continue
            for flags in (["--json"], ["--json", "--binary"], ["--json-unit"]):
                binary = "--binary" in flags
                if "--json-unit" in flags:
                    per = [[serialize_extraction(u, include_binary=binary) for u in r.iterate_units()] for r in results]
                    want = per[0] if len(results) == 1 else per
                else:
                    per = [serialize_extraction(r, include_binary=binary) for r in results]
                    want = per[0] if len(results) == 1 else per
                want = json.loads(json.dumps(want))
                raw = io.BytesIO()
                out = io.TextIOWrapper(raw, encoding="utf-8", errors="strict", newline="")
                err = io.StringIO()
                old = sys.stdout, sys.stderr
                sys.stdout, sys.stderr = out, err
                try:
                    try:
                        rc = cli.main([path] + flags)
                        out.flush()
                    except BaseException as e:  # noqa
                        rc = f"{type(e).__name__}: {e}"
                finally:
                    sys.stdout, sys.stderr = old
                n += 1
                where = {"argv": [os.path.basename(path)] + flags, "results": len(results), "stdout": "io.TextIOWrapper(utf-8, strict)",
                         "file_name_bytes": repr(os.fsencode(os.path.basename(path)))}
                data = raw.getvalue()
                try:
                    got = json.loads(data.decode("utf-8", "strict"))
                except Exception as e:  # noqa
                    return {"target": "cli.main", "inputs": where, "expected": "exit 0 and stdout = the JSON of to_json (strict UTF-8)",
                            "observed": f"exit {rc}; stdout {data[:80]!r} is not JSON ({type(e).__name__}); stderr {err.getvalue()[:160]!r}"}, n
                if rc != 0 or got != want or _first_diff(want, got):
                    return {"target": "cli.main", "inputs": where, "expected": "exit 0 and stdout = the JSON of to_json (object for one result, array otherwise)",
                            "observed": f"exit {rc}; {_first_diff(want, got) or 'same JSON'}"}, n
    return None, n


# ------------------------------------------------ executable contract (SER / DESER) --
# The spec functions of contracts/c05spec.py in executable form, written from the property statement; the function-level
# differential scope runs the REAL functions on small typed inputs and compares with these.
def spec_ser(v, b):
    import base64
    if isinstance(v, io.BytesIO):
        return {"_bytesio": base64.b64encode(v.getvalue()).decode("ascii")} if b else None
    if isinstance(v, (bytes, bytearray)):
        return {"_bytes": base64.b64encode(bytes(v)).decode("ascii")} if b else None
    if dataclasses.is_dataclass(v) and not isinstance(v, type):
        d = {"_type": type(v).__name__}
        for f in dataclasses.fields(v):
            d[f.name] = spec_ser(getattr(v, f.name), b)
        return d
    if isinstance(v, dict):
        return {str(k): spec_ser(x, b) for k, x in v.items()}
    if isinstance(v, (list, tuple, set)):
        return [spec_ser(x, b) for x in v]
    return v


def spec_sx(v, b):
    s_ = spec_ser(v, b)
    return s_ if isinstance(s_, dict) else {"value": s_}


def _unwrap(h):
    origin, args = typing.get_origin(h), typing.get_args(h)
    if (origin is typing.Union or origin is getattr(types, "UnionType", None)) and len(args) == 2 and type(None) in args:
        return [a for a in args if a is not type(None)][0]
    return h


def spec_deser(j, h, reg):
    import base64
    if j is None:
        return None
    e = _unwrap(h)
    if isinstance(j, dict):
        if "_bytesio" in j:
            return io.BytesIO(base64.b64decode(j["_bytesio"].encode("utf-8")))
        if "_bytes" in j:
            return base64.b64decode(j["_bytes"].encode("utf-8"))
        if "_type" in j:
            return spec_deser_dc(j, None, reg)
    origin, args = typing.get_origin(e), typing.get_args(e)
    if origin is list:
        return [spec_deser(x, args[0] if args else typing.Any, reg) for x in j] if isinstance(j, list) else j
    if origin is dict:
        return {k: spec_deser(x, args[1] if len(args) > 1 else typing.Any, reg) for k, x in j.items()} if isinstance(j, dict) else j
    if e is bytes or e is bytearray:
        return base64.b64decode(j.encode("utf-8")) if isinstance(j, str) else j
    if e is io.BytesIO:
        return io.BytesIO(base64.b64decode(j.encode("utf-8"))) if isinstance(j, str) else j
    if isinstance(e, type) and e.__name__ in reg and isinstance(j, dict):
        return spec_deser_dc(j, e, reg)
    return j


def spec_deser_dc(j, exp, reg):
    tn = j.get("_type")
    if isinstance(tn, str) and tn and tn in reg:
        cls = reg[tn]
    elif exp is not None:
        cls = exp
    else:
        return j
    data = j
    if cls.__name__ == "ImageMetadata":
        for new_, old_ in (("unit_number", "unit_index"), ("image_number", "image_index")):
            if new_ not in data and old_ in data:
                data = dict(data)
                data[new_] = data[old_]
    hints = typing.get_type_hints(cls)
    kw = {f.name: spec_deser(data[f.name], hints[f.name], reg) for f in dataclasses.fields(cls) if f.name in data}
    return cls(**kw)


def same_value(a, b):
    """Structural equality that looks into streams and dataclass instances (no reliance on their __eq__)."""
    if isinstance(a, io.BytesIO) or isinstance(b, io.BytesIO):
        return isinstance(a, io.BytesIO) and isinstance(b, io.BytesIO) and a.getvalue() == b.getvalue()
    if type(a) is not type(b):
        return False
    if dataclasses.is_dataclass(a) and not isinstance(a, type):
        return all(same_value(getattr(a, f.name), getattr(b, f.name)) for f in dataclasses.fields(a))
    if isinstance(a, dict):
        return list(a) == list(b) and all(same_value(a[k], b[k]) for k in a)
    if isinstance(a, (list, tuple)):
        return len(a) == len(b) and all(same_value(x, y) for x, y in zip(a, b))
    return a == b


def function_differential_scope():
    """The real encoder / decoder functions against the executable contract on small typed inputs: values of every kind
    (nested one level), JSON documents with and without markers x hints of every covered shape."""
    from sharepoint2text.parsing.extractors import serialization as S
    from sharepoint2text.parsing.extractors import data_types as D
    reg = S._get_type_registry()
    n = 0
    img = D.RtfImage(image_type="png", data=b"\x89PNG", image_index=1)
    att = D.EmailAttachment(filename="f", mime_type="m", data=io.BytesIO(b"att"))
    dim = D.TableDim(rows=1, columns=2)
    leaves = [None, True, 0, 7, -2.5, "", "x", "_type", "QUJD", b"", b"\x00\xff", bytearray(b"ab"), io.BytesIO(b"stream"), dim, img, att,
              D.ImageMetadata(unit_number=1, image_number=2, content_type="image/png")]
    values = list(leaves) + [[x] for x in leaves] + [(x, x) for x in leaves[:8]] + [{"k": x} for x in leaves] + [{x} for x in (1, "s")] + \
             [{"__type": 1}, {"__bytes": "x", "___bytesio": None}, [[{"__type": "PdfContent"}]], [], {}, (), [[1, "a"], [None]], {"a": {"b": [b"\x01"]}}, D.TableData(data=[[1, "a", None]]), D.XlsSheet(name="s", data=[{"h": 1.5}], text="t")]
    for v in values:
        for b in (True, False):
            if isinstance(v, io.BytesIO):
                v.seek(len(v.getvalue()) // 2)
            try:
                got = S._serialize_for_json(v, include_binary=b)
                gx = S.serialize_extraction(v, include_binary=b)
            except Exception as e:  # noqa
                return {"target": "serialization._serialize_for_json", "inputs": {"value": repr(v)[:120], "include_binary": b},
                        "expected": "SER(value, include_binary)", "observed": f"{type(e).__name__}: {e}"}, n
            n += 1
            want = spec_ser(v, b)
            if not same_value(got, want):
                return {"target": "serialization._serialize_for_json", "inputs": {"value": repr(v)[:160], "include_binary": b},
                        "expected": repr(want)[:200], "observed": repr(got)[:200]}, n
            if not same_value(gx, spec_sx(v, b)):
                return {"target": "serialization.serialize_extraction", "inputs": {"value": repr(v)[:160], "include_binary": b},
                        "expected": repr(spec_sx(v, b))[:200], "observed": repr(gx)[:200]}, n
    # decoder
    tdim = {"_type": "TableDim", "rows": 1, "columns": 2}
    docs = [None, True, 3, 1.5, "", "x", "QUJD", {"_bytes": "QUJD"}, {"_bytesio": "QUJD"}, tdim, {"rows": 3}, {"rows": 3, "columns": 4, "extra": 1},
            {"_type": "NoSuchClass", "rows": 1}, {"_type": "", "rows": 1}, {"_type": 5, "rows": 1}, {"k": "v"}, {"k": {"_bytes": "QUJD"}}, {}, {"__type": "x"}, {"__bytes": 1, "___type": 2}, {"k": {"__bytesio": "x"}}, [{"__type": "TableDim"}],
            [], ["x", None], [tdim], [{"rows": 3}], {"k": {"rows": 3}}, ["QUJD"], [{"_bytes": "QUJD"}, "QUJD"], [[tdim]], [{"k": tdim}], {"k": [tdim]},
            {"_type": "ImageMetadata", "unit_index": 3, "image_index": 4, "content_type": "c"},
            {"_type": "ImageMetadata", "unit_number": 1, "unit_index": 3, "image_number": 2, "content_type": "c"},
            {"_type": "TableData", "data": [[1, "a", None], [tdim]]}, {"_type": "XlsSheet", "name": "s", "data": [{"h": "QUJD"}], "text": ""},
            spec_ser(img, True), spec_ser(att, True), spec_ser(D.RtfContent(images=[img]), True)]
    O = typing.Optional
    hints = [typing.Any, str, int, bool, float, bytes, bytearray, io.BytesIO, O[str], O[int], O[bytes], O[io.BytesIO], str | None, int | None,
             typing.List[str], list[str], typing.List, typing.List[typing.Any], typing.List[typing.List[str]], O[typing.List[str]], typing.List[bytes],
             typing.List[D.TableDim], list[D.TableDim], O[typing.List[D.TableDim]], typing.List[typing.List[D.TableDim]], typing.List[D.ImageInterface],
             typing.Dict[str, str], dict[str, typing.Any], typing.Dict, typing.Dict[str, D.TableDim], typing.List[typing.Dict[str, D.TableDim]], O[typing.Dict[str, bytes]],
             D.TableDim, O[D.TableDim], D.TableData, D.ImageMetadata, D.FileMetadataInterface, D.ImageInterface, D.RtfImage, O[D.RtfImage], list, dict]
    for j in docs:
        for h in hints:
            import copy
            try:
                want = ("ok", spec_deser(copy.deepcopy(j), h, reg))
            except Exception as e:  # noqa
                want = ("raises", type(e).__name__)
            try:
                got = ("ok", S._deserialize_value(copy.deepcopy(j), h))
            except Exception as e:  # noqa
                got = ("raises", type(e).__name__)
            n += 1
            if want[0] == "ok" and not (got[0] == "ok" and same_value(got[1], want[1])):
                return {"target": "serialization._deserialize_value", "inputs": {"value": repr(j)[:160], "expected_type": str(h)},
                        "expected": "DESER(value, expected_type) = " + repr(want[1])[:160], "observed": repr(got[1])[:200]}, n
        if isinstance(j, dict):
            for exp in (None, D.TableDim, D.ImageMetadata, D.XlsSheet):
                try:
                    want = ("ok", spec_deser_dc(copy.deepcopy(j), exp, reg))
                except Exception as e:  # noqa
                    want = ("raises", type(e).__name__)
                try:
                    got = ("ok", S._deserialize_dataclass(copy.deepcopy(j), exp) if exp is not None else S._deserialize_dataclass(copy.deepcopy(j)))
                except Exception as e:  # noqa
                    got = ("raises", type(e).__name__)
                n += 1
                if want[0] == "ok" and not (got[0] == "ok" and same_value(got[1], want[1])):
                    return {"target": "serialization._deserialize_dataclass", "inputs": {"data": repr(j)[:160], "expected_class": getattr(exp, "__name__", None)},
                            "expected": repr(want[1])[:200], "observed": repr(got[1])[:200]}, n
            if "_type" in j:
                try:
                    want = ("ok", spec_deser_dc(copy.deepcopy(j), None, reg))
                except Exception as e:  # noqa
                    want = ("raises", type(e).__name__)
                try:
                    got = ("ok", S.deserialize_extraction(copy.deepcopy(j)))
                except Exception as e:  # noqa
                    got = ("raises", type(e).__name__)
                n += 1
                if want[0] == "ok" and not (got[0] == "ok" and same_value(got[1], want[1])):
                    return {"target": "serialization.deserialize_extraction", "inputs": {"data": repr(j)[:160]}, "expected": repr(want[1])[:200], "observed": repr(got[1])[:200]}, n
        if not isinstance(j, dict) or "_type" not in j:
            try:
                S.deserialize_extraction(copy.deepcopy(j))
                return {"target": "serialization.deserialize_extraction", "inputs": {"data": repr(j)[:160]}, "expected": "ValueError (no _type marker)", "observed": "returned"}, n
            except ValueError:
                pass
            except Exception as e:  # noqa
                return {"target": "serialization.deserialize_extraction", "inputs": {"data": repr(j)[:160]}, "expected": "ValueError (no _type marker)",
                        "observed": type(e).__name__}, n
    for h in hints:
        u = _unwrap(h) if typing.get_origin(h) is typing.Union else h
        want = (u, typing.get_origin(h) is typing.Union and u is not h)
        got = S._unwrap_optional(h)
        n += 1
        if got != want:
            return {"target": "serialization._unwrap_optional", "inputs": {"tp": str(h)}, "expected": repr(want), "observed": repr(got)}, n
    return None, n


def type_registry_scope():
    """The real _get_type_registry against its specification, on the real data_types module: first call (empty module state),
    second call (populated state), and from every other reachable state of the module invariant (emptied again)."""
    import importlib
    S = importlib.import_module("sharepoint2text.parsing.extractors.serialization")
    D = importlib.import_module("sharepoint2text.parsing.extractors.data_types")
    want = {n: getattr(D, n) for n in dir(D) if isinstance(getattr(D, n), type) and dataclasses.is_dataclass(getattr(D, n))}
    state = [v for k, v in vars(S).items() if isinstance(v, dict) and not k.startswith("__") and k.isupper() or (isinstance(v, dict) and "REGISTRY" in k.upper())]
    n = 0

    def diff(got, label):
        if not isinstance(got, dict):
            return {"target": "serialization._get_type_registry", "inputs": {"call": label}, "expected": f"mapping of {len(want)} dataclass classes",
                    "observed": f"{type(got).__name__}"}
        missing, extra = sorted(set(want) - set(got)), sorted(set(got) - set(want))
        wrong = sorted(k for k in set(want) & set(got) if got[k] is not want[k])
        if missing or extra or wrong:
            return {"target": "serialization._get_type_registry", "inputs": {"call": label},
                    "expected": f"exactly the {len(want)} names n of dir(data_types) whose attribute is a dataclass class, each mapped to that class",
                    "observed": f"missing {missing[:5]} ({len(missing)}), not registered classes {extra[:5]} ({len(extra)}), wrong object {wrong[:5]} ({len(wrong)})"}
        return None
    for rnd in range(2):
        for d in state:
            d.clear()
        for label in ("first call on empty module state", "second call"):
            n += 1
            try:
                got = S._get_type_registry()
            except Exception as e:  # noqa
                return {"target": "serialization._get_type_registry", "inputs": {"call": label}, "expected": "returns", "observed": f"{type(e).__name__}: {e}"}, n
            r = diff(got, label)
            if r:
                return r, n
            # round trip through the decoder's use of it: every registered name decodes to its class
        n += 1
    return None, n


def cli_parser_scope():
    """The real parser of cli._build_parser: the namespace attributes main reads, for every subset of the three switches."""
    from sharepoint2text import cli
    import contextlib
    n = 0
    combos = [(), ("--json",), ("--json-unit",), ("--binary",), ("--json", "--binary"), ("--json-unit", "--binary")]
    for combo in combos:
        n += 1
        argv = ["some.txt", *combo]
        try:
            with contextlib.redirect_stderr(io.StringIO()):
                ns, unknown = cli._build_parser().parse_known_args(argv)
            got = {"json": getattr(ns, "json", "<missing>"), "json_unit": getattr(ns, "json_unit", "<missing>"), "binary": getattr(ns, "binary", "<missing>")}
        except BaseException as e:  # noqa  (argparse exits)
            return {"target": "cli._build_parser", "inputs": {"argv": argv}, "expected": "parses", "observed": f"{type(e).__name__}: {e}"}, n
        want = {"json": "--json" in combo, "json_unit": "--json-unit" in combo, "binary": "--binary" in combo}
        if got != want or unknown:
            return {"target": "cli._build_parser", "inputs": {"argv": argv}, "expected": f"namespace {want}, nothing unknown",
                    "observed": f"namespace {got}, unknown {unknown}"}, n
    return None, n


SCOPES = ("metadata-paths", "xls-workbook-rows", "marker-slots", "function-differential", "type-directed-roundtrip", "base64-helpers-boundary-sizes", "post-init-idempotent", "ods-cell-kinds", "xlsx-cell-kinds", "xlsx-cell-positions", "xls-cell-kinds",
          "cli-stdout-json", "cli-payload-shapes", "fixture-documents", "type-registry-reflective", "cli-parser-switches")


def run_scope(name):
    """-> (failure or None, description of the bound)."""
    if name == "metadata-paths":
        r, n = metadata_path_scope()
        return r, f"{n} calls: populate_from_path / read_plain_text(path=...) with None, str and pathlib paths, existing and not on disk"
    if name == "xls-workbook-rows":
        r, n = xls_workbook_scope()
        return r, f"{n} stand-in xlrd workbooks through the real _read_content: header rows of every cell type, duplicates, blanks"
    if name == "marker-slots":
        r, n = marker_slots_scope()
        return r, f"{n} documents (XLSX via openpyxl, ODS, HTML, e-mail, RTF, text/CSV) whose every author-controlled string slot holds a word of {MARKER_TEXTS!r}"
    if name == "function-differential":
        r, n = function_differential_scope()
        return r, f"{n} calls: _serialize_for_json / serialize_extraction on values of every kind (nested one level), _deserialize_value on 32 JSON documents x 42 hints, _deserialize_dataclass, deserialize_extraction, _unwrap_optional -- against the executable SER/DESER"
    if name == "type-directed-roundtrip":
        r, n = type_directed_scope(False)
        return r, f"{n} instances: 6 type-directed variants of every registered dataclass (one with None in every field whose default is not None), strings from a vocabulary with the markers, BOM, whitespace, lone surrogate, control and non-BMP characters"
    if name == "base64-helpers-boundary-sizes":
        r = b64_helpers_scope()
        if r and r["target"].endswith("_bytes_to_base64"):
            api = b64_api_level(r["inputs"]["length"])
            if api:
                r = dict(r, api_level=api)
        return r, "payload sizes 0..7, 57/58, 76/77, 255..65537 and c-1..c+2, 2c, 2c+1, 3c+1 around every integer constant c of serialization.py; bytes, bytearray, streams at 3 positions"
    if name == "post-init-idempotent":
        r, n = post_init_scope()
        return r, f"{n} instances: every str field of every dataclass with __post_init__ x all token sequences of length <= 3 over {NORM_TOKENS!r}"
    if name == "ods-cell-kinds":
        r, n = ods_cells_scope()
        return r, f"{n} one-cell .ods documents: value types float/currency/percentage/date/time/boolean/string/void/untyped x whole, fractional, negative, exponent, huge, text, empty values"
    if name == "xlsx-cell-kinds":
        r, n = xlsx_cells_scope()
        return r, f"{n} one-cell .xlsx documents: int, float, text, bool, None, datetime, date, time, durations, Decimal, formula, error text"
    if name == "xlsx-cell-positions":
        r, n = xlsx_positions_scope()
        return r, f"{n} .xlsx sheets: datetime, date, time, duration, Decimal first appearing in data row p of an empty / plain / other-kind column, p small, 2^k+1 and around every integer constant of xlsx_extractor.py"
    if name == "xls-cell-kinds":
        r, n = xls_cells_scope()
        return r, f"{n} calls of _get_cell_values on xlrd Cell objects: 7 cell types x boundary values (date serials < 1, 59..61, huge, negative), date modes 0/1"
    if name == "cli-stdout-json":
        r, n = cli_stdout_scope()
        return r, f"{n} cli.main runs on a strict UTF-8 stdout: ASCII / non-BMP / control-character text, a file name that is not UTF-8, a two-member tar; --json, --json --binary, --json-unit"
    if name == "cli-payload-shapes":
        return cli_shapes(), "0, 1, 2 results x binary on/off"
    if name == "type-registry-reflective":
        r, n = type_registry_scope()
        return r, f"{n} calls of the real _get_type_registry on the real data_types module: empty and populated module state, twice"
    if name == "cli-parser-switches":
        r, n = cli_parser_scope()
        return r, f"{n} argument vectors through the real parser: every admissible subset of --json / --json-unit / --binary"
    if name == "fixture-documents":
        r, n = fixtures_scope()
        return r, f"results and units of {n} fixture documents"
    raise KeyError(name)


def native_scopes(only=None):
    out = {}
    for name in SCOPES:
        if only and name not in only:
            continue
        try:
            r, bound = run_scope(name)
            out[name] = {"failure": r, "bound": bound}
        except Exception:  # noqa
            import traceback
            out[name] = {"error": traceback.format_exc()[-800:]}
    return out


# obligation (sub)string -> directed scopes that look for a failing input of that construct
ROUTES = (("native-scope/bounded#", None),
          ("_serialize_for_json", ("function-differential",)), ("serialize_extraction", ("function-differential",)),
          ("_get_type_registry", ("type-registry-reflective", "type-directed-roundtrip")), ("_get_field_types", ("function-differential", "type-directed-roundtrip")),
          ("_build_parser", ("cli-parser-switches", "cli-stdout-json")),
          ("to_json", ("type-directed-roundtrip", "fixture-documents")), ("from_json", ("type-directed-roundtrip", "fixture-documents")),
          ("_deserialize_value", ("function-differential",)), ("_deserialize_dataclass", ("function-differential",)),
          ("deserialize_extraction", ("function-differential",)), ("_unwrap_optional", ("function-differential",)),
          ("_bytes_to_base64", ("base64-helpers-boundary-sizes",)), ("_bytesio_to_base64", ("base64-helpers-boundary-sizes",)),
          ("_base64_to_bytes", ("base64-helpers-boundary-sizes",)),
          ("__post_init__/ensures", ("post-init-idempotent",)), ("post-init", ("post-init-idempotent",)),
          ("keys-are-str", ("xls-workbook-rows", "marker-slots")),
          ("dict-keys", ("marker-slots",)),
          ("ods_extractor", ("ods-cell-kinds",)),
          ("xlsx_extractor", ("xlsx-cell-kinds", "xlsx-cell-positions")),
          ("xls_extractor", ("xls-cell-kinds", "xls-workbook-rows")), ("XlsSheet", ("xls-workbook-rows",)),
          ("populate_from_path", ("metadata-paths",)), ("Metadata", ("metadata-paths",)),
          ("field-stores", ("metadata-paths", "post-init-idempotent", "type-directed-roundtrip")),
          ("cli.py::main", ("cli-stdout-json",)), ("cli.py", ("cli-payload-shapes", "cli-stdout-json")))


def directed(ob):
    for key, scopes in ROUTES:
        if key in ob:
            if scopes is None:
                name = ob.split("bounded#", 1)[1].split(".BOUNDED")[0]
                scopes = (name,) if name in SCOPES else ()
            for sc in scopes:
                r, bound = run_scope(sc)
                if r:
                    return dict(r, reproduced=True, scope=sc, bound=bound)
            return {"reproduced": False, "note": "BOUNDED directed scope(s) clean: " + ", ".join(scopes)} if scopes else None
    return None


def find(req):
    ob = req.get("obligation", "") or ""
    kf = req.get("known_finding")
    if kf == "F6" or "roundtrip-any-key" in ob:
        a = f6_dataclass_level("_type", "PdfContent")
        b = f6_file_level()
        c = None
        if a is None:
            for k in MARKERS:
                c = c or f6_dataclass_level(k, "x")
        hit = a or b or c
        if hit:
            hit = dict(hit, reproduced=True)
            hit["observed"] = "; ".join(f"[{lbl}] {r['observed']}" for lbl, r in (("rows {'_type': 'PdfContent'}", a), ("real .xls, header `_bytes`", b)) if r)
            return hit
        return {"reproduced": False, "note": "marker keys in document mappings survive the round trip"}
    if req.get("all_scopes"):
        sc = native_scopes()
        bad = [k for k, v in sc.items() if v.get("failure")]
        return {"reproduced": bool(bad), "scopes": sc}
    key = ob + " " + (req.get("function") or "")
    d = directed(key)
    if d is not None and (d.get("reproduced") or "native-scope/bounded#" in ob):
        return d
    r, n = type_directed_scope(marker_keys=False)
    if r:
        return dict(r, reproduced=True)
    if "roundtrip" in ob:
        rk, _n = type_directed_scope(marker_keys=True, variants=(1, 2))
        hit = f6_dataclass_level("_type", "PdfContent") or rk
        if hit:
            return dict(hit, reproduced=True)
    r2 = cli_shapes()
    if r2:
        return dict(r2, reproduced=True)
    r3, m = fixtures_scope()
    if r3:
        return dict(r3, reproduced=True)
    r4 = f5_xlsx_duration()
    if r4 and ("store" in ob or "scalar" in ob):
        return dict(r4, reproduced=True)
    return {"reproduced": False, "note": f"BOUNDED native scope clean: {n} type-directed instances over all registered dataclasses, {m} fixture documents"}


def rerun(stored):
    return find({"obligation": stored.get("obligation", ""), "function": stored.get("target")})


if __name__ == "__main__":
    import logging
    logging.disable(logging.CRITICAL)
    if "--registry-dump" in sys.argv:
        print(json.dumps(registry_dump()))
    elif "--scopes" in sys.argv:
        import time
        for name in SCOPES:
            t0 = time.time()
            r, bound = run_scope(name)
            print(name, round(time.time() - t0, 2), "FAIL " + json.dumps(r, default=repr)[:600] if r else "clean", "|", bound[:100], flush=True)
    elif "--scope" in sys.argv:
        r, n = type_directed_scope(False)
        print(json.dumps({"failure": r, "instances": n}, default=repr))
        r, n = type_directed_scope(True)
        print(json.dumps({"with_marker_keys_failure": r, "instances": n}, default=repr))
        print(json.dumps({"cli": cli_shapes()}, default=repr))
        r, n = fixtures_scope()
        print(json.dumps({"fixtures_failure": r, "documents": n}, default=repr))
        print(json.dumps({"F5": f5_xlsx_duration()}, default=repr))
        print(json.dumps({"F6_dataclass": f6_dataclass_level(), "F6_file": f6_file_level()}, default=repr))
