"""Native confinement probes for C09 (runs under /venv/bin/python on the REAL code, no z3).

The property's own observation points, on real archives built in memory:

* every file-system event issued from the package while an archive is processed (audit events `open`, `os.mkdir`,
  `os.remove`, `os.rename`, `os.symlink`, `shutil.*`, ... plus `os.stat` / `os.lstat`, which `os.path.exists` uses) must
  concern a path whose *real* path lies inside the private temporary root (`tempfile.tempdir` is redirected to a fresh
  directory for the probe);
* canary files at host paths named by members: their content never appears in a result, the host tree is unchanged;
* the temporary root is empty again after every consumer history (exhaust, close after one result, abandon, exception
  in the consumer);
* every member carries a unique marker: only markers of visible, supported, non-nested, regular members within the size
  limit may appear in results (hidden members, macOS forks, nested archives, unsupported types, oversize members, and
  link / device / fifo members never produce results).

Archive grammar: ZIP, TAR and 7z with absolute, dot-dot, backslash, drive, empty, long and unicode member names, names of
existing host files, TAR symlink / hardlink / device / fifo members (pointing at host files and at other members), ZIP
symlink members, 7z entries with and without data streams, zero-length 7z files, 7z directories and 7z members whose
unix-extension attributes say "symbolic link".
"""
import dataclasses
import gc
import hashlib
import io
import os
import shutil
import stat
import struct
import sys
import tarfile
import tempfile
import warnings
import zipfile
import zlib

SECRET = "HOST-SECRET-c09-7f3a must never leave the host"
NOSTREAM = "<no-stream>"       # a listed non-directory 7z entry that has no data stream
ATTR_FILE, ATTR_DIR = 0x20, 0x10
ATTR_UNIX = 0x8000
ATTR_SYMLINK = ATTR_UNIX | 0x20 | ((stat.S_IFLNK | 0o777) << 16)
ATTR_REGULAR = ATTR_UNIX | 0x20 | ((stat.S_IFREG | 0o644) << 16)


# ------------------------------------------------------------------ writers --
def num(v):
    """7z NUMBER."""
    for k in range(8):
        if v < (1 << (7 * (k + 1))):
            first = ((0xFF << (8 - k)) & 0xFF) | (v >> (8 * k))
            return bytes([first]) + (v & ((1 << (8 * k)) - 1)).to_bytes(k, "little")
    return b"\xff" + v.to_bytes(8, "little")


def bitvec(bits):
    out = bytearray((len(bits) + 7) // 8)
    for i, b in enumerate(bits):
        if b:
            out[i // 8] |= 0x80 >> (i % 8)
    return bytes(out)


def write7z(members, with_attrs=True, declared=None, per_file_folders=False):
    """declared: {member name: size written in the header} -- the pack stream still carries the member's full bytes (a stream running
    past the declared end of a member); per_file_folders: one Copy folder per member with a stream instead of one solid folder.
    members: [(name, data, attributes)] -- data: non-empty bytes = a member with a stream (one solid Copy folder), b"" = zero-length
    file (emptyStream + emptyFile), None = directory (emptyStream), NOSTREAM = a listed file entry for which no stream exists
    (more files than sub-streams / no streams info at all)."""
    declared = declared or {}
    named = [(n, d) for n, d, _a in members if isinstance(d, bytes) and d]
    streams = [d for _n, d in named]
    sizes = [declared.get(n, len(d)) for n, d in named]
    body = b"".join(streams)
    h = bytearray(b"\x01")
    if streams and per_file_folders:
        h += b"\x04"
        h += b"\x06" + num(0) + num(len(streams)) + b"\x09" + b"".join(num(len(d)) for d in streams) + b"\x00"
        h += b"\x07\x0b" + num(len(streams)) + b"\x00" + b"".join(num(1) + b"\x01\x00" for _d in streams)
        h += b"\x0c" + b"".join(num(z) for z in sizes) + b"\x00"
        h += b"\x08\x00\x00"
    elif streams:
        h += b"\x04"
        h += b"\x06" + num(0) + num(1) + b"\x09" + num(len(body)) + b"\x00"
        h += b"\x07\x0b" + num(1) + b"\x00" + num(1) + b"\x01\x00"
        h += b"\x0c" + num(sum(sizes)) + b"\x00"
        h += b"\x08\x0d" + num(len(streams))
        if len(streams) > 1:
            h += b"\x09" + b"".join(num(z) for z in sizes[:-1])
        h += b"\x00\x00"
    h += b"\x05" + num(len(members))
    empty = [d is None or d == b"" for _n, d, _a in members]
    if any(empty):
        bv = bitvec(empty)
        h += b"\x0e" + num(len(bv)) + bv
        ef = [d == b"" for _n, d, _a in members if d is None or d == b""]
        if any(ef):
            bv = bitvec(ef)
            h += b"\x0f" + num(len(bv)) + bv
    names = b"\x00" + b"".join(n.encode("utf-16-le") + b"\x00\x00" for n, _d, _a in members)
    h += b"\x11" + num(len(names)) + names
    if with_attrs:
        attrs = b"\x01\x00" + b"".join(struct.pack("<I", a) for _n, _d, a in members)
        h += b"\x15" + num(len(attrs)) + attrs
    h += b"\x00\x00"
    start = struct.pack("<QQI", len(body), len(h), zlib.crc32(bytes(h)))
    return b"7z\xbc\xaf\x27\x1c\x00\x04" + struct.pack("<I", zlib.crc32(start)) + start + body + bytes(h)


def write_zip(members, method=zipfile.ZIP_DEFLATED):
    """members: [(name, data, kind)] kind: 'file' | 'symlink' (data = target) | 'dir'"""
    buf = io.BytesIO()
    with warnings.catch_warnings():
        warnings.simplefilter("ignore")
        with zipfile.ZipFile(buf, "w", method) as z:
            for name, data, kind in members:
                zi = zipfile.ZipInfo(name)
                zi.compress_type = method
                if kind == "symlink":
                    zi.create_system = 3
                    zi.external_attr = (stat.S_IFLNK | 0o777) << 16
                elif kind == "dir":
                    zi.external_attr = ((stat.S_IFDIR | 0o755) << 16) | 0x10
                else:
                    zi.external_attr = (stat.S_IFREG | 0o644) << 16
                z.writestr(zi, data)
    return buf.getvalue()


TAR_TYPES = {"file": tarfile.REGTYPE, "symlink": tarfile.SYMTYPE, "hardlink": tarfile.LNKTYPE, "chr": tarfile.CHRTYPE, "blk": tarfile.BLKTYPE,
             "fifo": tarfile.FIFOTYPE, "dir": tarfile.DIRTYPE, "contiguous": tarfile.CONTTYPE}


def write_tar(members, mode="w", fmt=tarfile.PAX_FORMAT):
    """members: [(name, data, kind)] -- for links `data` is the link target."""
    buf = io.BytesIO()
    with tarfile.open(fileobj=buf, mode=mode, format=fmt) as t:
        for name, data, kind in members:
            ti = tarfile.TarInfo(name)
            ti.type = TAR_TYPES[kind]
            if kind in ("symlink", "hardlink"):
                ti.linkname = data.decode() if isinstance(data, bytes) else data
                t.addfile(ti)
            elif kind in ("chr", "blk"):
                ti.devmajor, ti.devminor = 1, 3
                t.addfile(ti)
            elif kind in ("fifo", "dir"):
                t.addfile(ti)
            else:
                ti.size = len(data)
                t.addfile(ti, io.BytesIO(data))
    return buf.getvalue()


# ------------------------------------------------------------------ sandbox --
_STDLIB = os.path.dirname(os.__file__)
_QUIET = ("importlib", "linecache", "warnings.py", "traceback.py", "logging", "zipimport", "pkgutil.py", "encodings", "mimetypes.py")
_state = {"on": False, "events": [], "installed": False, "pkg": None}
#            event -> indices of its path arguments
_EVENTS = {"open": (0,), "os.mkdir": (0,), "os.remove": (0,), "os.rmdir": (0,), "os.rename": (0, 1), "os.link": (0, 1), "os.listdir": (0,),
           "os.scandir": (0,), "os.chmod": (0,), "os.chown": (0,), "os.utime": (0,), "os.truncate": (0,), "os.mkfifo": (0,), "os.mknod": (0,),
           "shutil.copyfile": (0, 1), "shutil.copymode": (0, 1), "shutil.copystat": (0, 1), "shutil.copytree": (0, 1), "shutil.move": (0, 1),
           "shutil.rmtree": (0,), "shutil.unpack_archive": (0, 1), "shutil.make_archive": (0,), "os.stat": (0,), "os.lstat": (0,),
           "tempfile.mkdtemp": (0,), "tempfile.mkstemp": (0,)}


_DIR_FD = {"os.remove": 1, "os.rmdir": 1, "os.mkdir": 2, "os.symlink": 2, "os.chmod": 2}


def _issuer(event):
    """File of the nearest non-stdlib frame that issued the event (None: an import / warning / traceback machinery event, or a
    low-level step of shutil.rmtree -- relative names under a directory fd; the `shutil.rmtree` event itself carries the path)."""
    f = sys._getframe(2)
    while f is not None:
        fn = f.f_code.co_filename
        if fn == __file__:
            f = f.f_back
            continue
        if fn.startswith("<frozen") or fn.startswith(_STDLIB) and "site-packages" not in fn:
            if any(q in fn for q in _QUIET):
                return None
            if fn.endswith("shutil.py") and "rmtree" in f.f_code.co_name and event != "shutil.rmtree":
                return None
            f = f.f_back
            continue
        return fn
    return None


def _at(path, args, event):
    """resolve a relative path given together with a directory file descriptor"""
    path = os.fsdecode(path)
    k = _DIR_FD.get(event)
    if k is not None and k < len(args) and isinstance(args[k], int) and args[k] >= 0 and not os.path.isabs(path):
        try:
            return os.path.join(os.readlink(f"/proc/self/fd/{args[k]}"), path)
        except OSError:
            pass
    return path


def _record(event, args):
    if not _state["on"]:
        return
    _state["on"] = False
    try:
        if event == "os.symlink":
            src, dst = args[0], args[1]
            who = _issuer(event)
            if who and who.startswith(_state["pkg"]) and isinstance(dst, (str, bytes)):
                dst = _at(dst, args, event)
                _state["events"].append((event, dst, who))
                target = os.path.join(os.path.dirname(os.path.abspath(dst)), os.fsdecode(src))
                _state["events"].append(("os.symlink-target", target, who))
            return
        idx = _EVENTS.get(event)
        if idx is None:
            return
        who = _issuer(event)
        if not who or not who.startswith(_state["pkg"]):
            return
        for i in idx:
            if i < len(args) and isinstance(args[i], (str, bytes)):
                _state["events"].append((event, _at(args[i], args, event), who))
    finally:
        _state["on"] = True


def _install(pkg_dir):
    _state["pkg"] = pkg_dir
    if _state["installed"]:
        return
    _state["installed"] = True
    sys.addaudithook(lambda event, args: _record(event, args) if _state["on"] else None)
    real_stat, real_lstat = os.stat, os.lstat

    def stat_(path, *a, **k):
        if _state["on"]:
            _record("os.stat", (path,))
        return real_stat(path, *a, **k)

    def lstat_(path, *a, **k):
        if _state["on"]:
            _record("os.lstat", (path,))
        return real_lstat(path, *a, **k)
    os.stat, os.lstat = stat_, lstat_


def _tree(root):
    out = {}
    for d, dirs, files in os.walk(root):
        for n in dirs:
            out[os.path.relpath(os.path.join(d, n), root)] = "dir"
        for n in files:
            p = os.path.join(d, n)
            try:
                out[os.path.relpath(p, root)] = "link" if os.path.islink(p) else hashlib.sha1(open(p, "rb").read()).hexdigest()
            except OSError:
                out[os.path.relpath(p, root)] = "?"
    return out


class Sandbox:
    """A host directory with canary files next to a private temporary root; `run` observes one consumer history."""

    def __enter__(self):
        import sharepoint2text
        self.base = os.path.realpath(tempfile.mkdtemp(prefix="c09probe_"))
        self.host = os.path.join(self.base, "host")
        self.tmp = os.path.join(self.base, "tmp")
        os.mkdir(self.host)
        os.mkdir(self.tmp)
        os.mkdir(os.path.join(self.host, "dropzone"))
        self.canary = os.path.join(self.host, "canary.txt")
        with open(self.canary, "w") as fh:
            fh.write(SECRET)
        self.cwd = os.getcwd()
        os.chdir(self.host)                      # plain relative names resolve to host files as well
        with open("notes.txt", "w") as fh:
            fh.write(SECRET)
        self.old_tempdir = tempfile.tempdir
        tempfile.tempdir = self.tmp
        self.before = _tree(self.host)
        _install(os.path.dirname(os.path.abspath(sharepoint2text.__file__)) + os.sep)
        return self

    def __exit__(self, *exc):
        _state["on"] = False
        tempfile.tempdir = self.old_tempdir
        os.chdir(self.cwd)
        shutil.rmtree(self.base, ignore_errors=True)

    def inside(self, p):
        rp = os.path.realpath(os.path.abspath(p))
        return rp == self.tmp or rp.startswith(self.tmp + os.sep)

    def run(self, data, name, history="exhaust"):
        """-> (results [(file_path, text)], problems [str])"""
        from sharepoint2text.parsing.extractors import archive_extractor as ae
        problems, results = [], []
        _state["events"] = []
        escaped = []

        def note(r):
            try:
                results.append((str(r.get_metadata().file_path), r.get_full_text()))
            except Exception as e:  # noqa
                results.append(("?", f"<unreadable result {e!r}>"))

        _state["on"] = True
        try:
            gen = ae.read_archive(io.BytesIO(data), name)
            try:
                if history == "exhaust":
                    for r in gen:
                        note(r)
                elif history == "close-after-1":
                    for r in gen:
                        note(r)
                        break
                    gen.close()
                elif history == "abandon":
                    for r in gen:
                        note(r)
                        break
                    del gen
                    gc.collect()
                elif history == "consumer-exception":
                    try:
                        for r in gen:
                            note(r)
                            raise RuntimeError("consumer failed")
                    except RuntimeError:
                        pass
                    del gen
                    gc.collect()
            except Exception as e:  # noqa   a refused archive is fine
                results.append(("<refused>", type(e).__name__))
            gen = None
            gc.collect()
        finally:
            _state["on"] = False
        # judged after the run: the real path of an event's path (links created meanwhile are followed)
        for ev, p, who in _state["events"]:
            if not self.inside(p):
                escaped.append(f"{ev}({p!r}) issued from {os.path.basename(who)}")
        for e in dict.fromkeys(escaped):
            problems.append("file-system access outside the private temporary directory: " + e)
        for fp, text in results:
            if SECRET in text:
                problems.append(f"content of a host file appeared in the result for {fp!r}")
        after = _tree(self.host)
        if after != self.before:
            diff = sorted(set(after.items()) ^ set(self.before.items()))
            problems.append(f"host tree changed: {diff[:4]}")
            self.before = after
        left = sorted(os.listdir(self.tmp))
        if left:
            problems.append(f"temporary directory not removed after history `{history}`: {left[:3]}")
            for n in left:
                p = os.path.join(self.tmp, n)
                shutil.rmtree(p, ignore_errors=True) if os.path.isdir(p) and not os.path.islink(p) else os.unlink(p)
        return results, problems


# -------------------------------------------------------------------- corpus --
def _m(tag):
    return f"MARK-{tag}-{hashlib.sha1(tag.encode()).hexdigest()[:8]}"


def _txt(tag, n=1):
    return (f"{_m(tag)} text of member {tag}\n" * n).encode()


def hostile_names(sb):
    up = "../" * 14 + sb.canary.lstrip("/")
    rel = os.path.relpath(sb.canary, sb.tmp)                      # ../host/canary.txt (from the temp root)
    rel1 = "../" + rel                                           # from a directory inside the temp root
    return [sb.canary, "/" + sb.canary, up, rel1, "sub/../../" + rel1, "..\\..\\host\\canary.txt", "..\\" + rel1.replace("/", "\\"),
            "sub\\..\\..\\..\\host\\canary.txt", "..\\../" + "host/canary.txt", "C:\\host\\canary.txt", "C:" + sb.canary, "\\\\server\\share\\canary.txt",
            "\\" + sb.canary.lstrip("/"), "notes.txt", "./notes.txt", "a/./../notes.txt", "~/canary.txt", "x" * 240 + ".txt", "d\u00e9j\u00e0/\u00fcber.txt",
            " .txt", "con.txt", "a//b.txt", "a/b/../c.txt"]


def archives(sb):
    """-> [(label, archive name, bytes, expectations)]; expectations = {"allowed": set of markers that may appear, "must": markers that must}"""
    out = []
    names = hostile_names(sb)
    good = ("readme.txt", _txt("readme"), "file")
    # ZIP / TAR: hostile names on regular members (in-memory reads: no file-system event at all, content = archive bytes)
    zmem = [good] + [(n, _txt(f"z{i}"), "file") for i, n in enumerate(names)]
    out.append(("zip hostile names", "h.zip", write_zip(zmem), {"no_fs": True}))
    out.append(("tar hostile names", "h.tar", write_tar(zmem), {"no_fs": True}))
    out.append(("tar.gz hostile names", "h.tar.gz", write_tar(zmem[:8], "w:gz", tarfile.GNU_FORMAT), {"no_fs": True}))
    # ZIP symlink members
    out.append(("zip symlink members", "l.zip", write_zip([good, ("link.txt", sb.canary.encode(), "symlink"), ("up.txt", b"../host/canary.txt", "symlink")]),
                {"no_fs": True}))
    # TAR non-regular members: pointing at host files and at members that must stay invisible
    hidden = [(".hidden.txt", _txt("tar-hidden"), "file"), ("__MACOSX/fork.txt", _txt("tar-fork"), "file"), ("prog.exe", _txt("tar-exe"), "file")]
    nonreg = []
    for i, target in enumerate((sb.canary, "../host/canary.txt", "../" * 14 + sb.canary.lstrip("/"), ".hidden.txt", "__MACOSX/fork.txt", "prog.exe", "readme.txt")):
        nonreg.append((f"docs/sym{i}.txt", target, "symlink"))
        nonreg.append((f"docs/hard{i}.txt", target, "hardlink"))
    nonreg += [("dev/null.txt", b"", "chr"), ("dev/disk.txt", b"", "blk"), ("pipe.txt", b"", "fifo"), ("folder.txt", b"", "dir")]
    for fmt, fl in ((tarfile.PAX_FORMAT, "pax"), (tarfile.GNU_FORMAT, "gnu")):
        out.append((f"tar links / devices / fifo ({fl})", "n.tar", write_tar([good] + hidden + nonreg, "w", fmt),
                    {"no_fs": True, "silent": [n for n, _d, _k in nonreg], "forbidden": [_m("tar-hidden"), _m("tar-fork"), _m("tar-exe")], "must": [_m("readme")]}))
    out.append(("tar links before their targets", "n2.tar", write_tar(nonreg[:14] + hidden + [good], "w:gz"),
                {"no_fs": True, "silent": [n for n, _d, _k in nonreg], "forbidden": [_m("tar-hidden"), _m("tar-fork"), _m("tar-exe")], "must": [_m("readme")]}))
    # 7z: one hostile name per archive (a rejected name refuses the whole archive)
    g7 = ("readme.txt", _txt("readme"), ATTR_FILE)
    for i, n in enumerate(names):
        for attrs in (True, False):
            out.append((f"7z member with a stream named {n[:40]!r}" + ("" if attrs else " (no attributes)"), "s.7z", write7z([g7, (n, _txt(f"s{i}"), ATTR_FILE)], attrs), {}))
        out.append((f"7z listed member without a stream named {n[:40]!r}", "ns.7z", write7z([g7, (n, NOSTREAM, ATTR_FILE)]), {}))
        out.append((f"7z zero-length member named {n[:40]!r}", "e.7z", write7z([g7, (n, b"", ATTR_FILE)]), {}))
        out.append((f"7z directory named {n[:40]!r}", "d.7z", write7z([g7, (os.path.dirname(n) or n, None, ATTR_DIR)]), {}))
    out.append(("7z without any stream, member named like a host file", "ns0.7z", write7z([(sb.canary, NOSTREAM, ATTR_FILE)]), {}))
    out.append(("7z without any stream, relative name of a host file", "ns1.7z", write7z([("notes.txt", NOSTREAM, ATTR_FILE)], False), {}))
    # 7z members whose unix attributes say "symbolic link" (the stream holds the target)
    for tgt in (sb.canary, "../../host/canary.txt"):
        out.append((f"7z unix symlink member -> {tgt[-24:]!r}", "ln.7z", write7z([("link.txt", tgt.encode(), ATTR_SYMLINK), ("readme.txt", _txt("readme"), ATTR_REGULAR)]), {}))
    drop = os.path.join(sb.host, "dropzone")
    out.append(("7z unix symlink member to a host directory, then a member below it", "lnd.7z",
                write7z([("out", drop.encode(), ATTR_SYMLINK), ("out/planted.txt", _txt("planted"), ATTR_REGULAR)]), {}))
    return out


def skip_members():
    """[(name, tag, visible)] in an order that interleaves visible and invisible members sharing base names."""
    inner_zip = write_zip([("inner.txt", _txt("nested-zip"), "file")])
    inner_tgz = write_tar([("inner.txt", _txt("nested-tgz"), "file")], "w:gz")
    inner_tbz = write_tar([("inner.txt", _txt("nested-tbz"), "file")], "w:bz2")
    inner_txz = write_tar([("inner.txt", _txt("nested-txz"), "file")], "w:xz")
    inner_tar = write_tar([("inner.txt", _txt("nested-tar"), "file")])
    inner_7z = write7z([("inner.txt", _txt("nested-7z"), ATTR_FILE)])
    mem = [("docs/report.txt", _txt("report"), True), ("__MACOSX/report.txt", _txt("fork-report"), False), (".hidden.txt", _txt("dot"), False),
           ("sub/.secret.md", _txt("dot-md"), False), ("sub/visible.md", _txt("visible-md"), True), ("__MACOSX/sub/visible.md", _txt("fork-md"), False),
           ("prog.exe", _txt("exe"), False), ("lib.so", _txt("so"), False), ("in.zip", inner_zip, False), ("deep/a.tar.gz", inner_tgz, False),
           ("B.TGZ", inner_tgz, False), ("c.tar.bz2", inner_tbz, False), ("d.tbz2", inner_tbz, False), ("e.tar.xz", inner_txz, False), ("f.txz", inner_txz, False),
           ("g.tar", inner_tar, False), ("x.7Z", inner_7z, False), ("Mixed.Tar.Gz", inner_tgz, False), ("table.csv", b"k,v\n" + _txt("csv"), True),
           ("__MACOSX/late.txt", _txt("fork-late"), False), ("other/late.txt", _txt("late"), True),
           # what `tar -C dir -cf x.tar .` writes: every member as "./path"
           ("./.env.txt", _txt("dotslash-env"), False), ("./._fork.txt", _txt("dotslash-fork"), False), ("./sub/.hid.md", _txt("dotslash-sub"), False),
           ("./plain.txt", _txt("dotslash-plain"), True), (".//.double.txt", _txt("dotslash-double"), False), ("a/../.up.txt", _txt("dotdot-hidden"), False),
           ("./deep/in.zip", inner_zip, False), ("..hidden2.txt", _txt("dotdot-name"), False)]
    # nested-archive spellings with decoration after the extension: whatever decides "supported" and "which extractor" must not see an archive
    # where the nested-archive rule sees none (trailing dots / blanks, URL decoration, version / backup marks)
    mem += [("in2.zip.", inner_zip, False), ("backup/nested.ZIP ", inner_zip, False), ("logs.tgz.", inner_tgz, False), ("logs.tar.xz.", inner_txz, False),
            ("x2.7z ", inner_7z, False), ("y.tgz. .", inner_tgz, False), ("q.zip?download=1", inner_zip, False), ("r.zip#part", inner_zip, False),
            ("s.zip~", inner_zip, False), ("t.tar.gz;1", inner_tgz, False), ("u.zip\t", inner_zip, False), ("v.zip%20", inner_zip, False),
            ("w.tar.bz2..", inner_tbz, False), ("z.tar ", inner_tar, False)]
    forbidden = [_m(t) for t in ("fork-report", "dot", "dot-md", "fork-md", "exe", "so", "nested-zip", "nested-tgz", "nested-tbz", "nested-txz", "nested-tar",
                                 "nested-7z", "fork-late", "dotslash-env", "dotslash-fork", "dotslash-sub", "dotslash-double", "dotdot-hidden",
                                 "dotdot-name")]
    must = [_m(t) for t in ("report", "visible-md", "csv", "late", "dotslash-plain")]
    return mem, forbidden, must


def judge(label, name, results, problems, exp, sandbox_events):
    out = list(problems)
    texts = "\n".join(t for _fp, t in results)
    for mk in exp.get("forbidden", ()):
        if mk in texts:
            who = [fp for fp, t in results if mk in t]
            out.append(f"content of a member that must never produce results ({mk}) appeared in the result for {who[0]!r}")
    for nm in exp.get("silent", ()):
        if any(fp.endswith("!/" + nm) or fp == nm for fp, _t in results):
            out.append(f"the non-regular member {nm!r} (link / device / fifo / directory) produced a result")
    if not any(fp == "<refused>" for fp, _t in results):
        for mk in exp.get("must", ()):
            if mk not in texts:
                out.append(f"the visible member carrying {mk} produced no result")
    if exp.get("no_fs") and sandbox_events:
        ev = sandbox_events[0]
        out.append(f"a ZIP/TAR archive caused a file-system access: {ev[0]}({ev[1]!r})")
    return out


def report(label, name, data, history, problem):
    return {"reproduced": True, "target": "archive_extractor.py::read_archive",
            "inputs": {"archive": label, "archive_name": name, "archive_hex": data.hex() if len(data) <= 4096 else data[:4096].hex() + "...",
                       "archive_bytes": len(data), "consumer": history},
            "expected": "archive processing is confined to a private temporary directory that is gone afterwards; only visible, supported, regular members "
                        "within the size limit produce results",
            "observed": problem}


def confinement(first=()):
    """Run the hostile corpus; `first` = substrings of labels to try first.  -> failing report | None"""
    with Sandbox() as sb:
        items = archives(sb)
        items.sort(key=lambda it: 0 if any(s in it[0] for s in first) else 1)
        for label, name, data, exp in items:
            results, problems = sb.run(data, name)
            bad = judge(label, name, results, problems, exp, [e for e in _state["events"] if not e[0].startswith("tempfile")])
            if bad:
                return report(label, name, data, "exhaust", bad[0])
    return None


def histories():
    """Temp dir lifetime under every consumer history, for each format (7z is the one that owns a temp dir)."""
    with Sandbox() as sb:
        docs = [("a.txt", _txt("a")), ("sub/b.md", _txt("b")), ("c.csv", b"k,v\n" + _txt("c")), ("d.txt", _txt("d"))]
        corrupt = [("a.txt", _txt("a")), ("broken.docx", b"not a docx"), ("z.txt", _txt("z"))]
        packs = [("7z four members", "t.7z", write7z([(n, d, ATTR_FILE) for n, d in docs])),
                 ("7z with a corrupt member", "t.7z", write7z([(n, d, ATTR_FILE) for n, d in corrupt])),
                 ("7z with an unsafe member name", "t.7z", write7z([("a.txt", _txt("a"), ATTR_FILE), ("../x.txt", _txt("x"), ATTR_FILE)])),
                 ("7z truncated", "t.7z", write7z([(n, d, ATTR_FILE) for n, d in docs])[:-9]),
                 ("zip four members", "t.zip", write_zip([(n, d, "file") for n, d in docs])),
                 ("tar.gz four members", "t.tar.gz", write_tar([(n, d, "file") for n, d in docs], "w:gz"))]
        for label, name, data in packs:
            for h in ("exhaust", "close-after-1", "abandon", "consumer-exception"):
                results, problems = sb.run(data, name, h)
                if problems:
                    return report(label, name, data, h, problems[0])
        # extraction that fails with neither Bad7zFile nor OSError: more directory levels than os.makedirs can recurse through (the path stays
        # below PATH_MAX).  It fails before the first result, so one consumer history is all there is.
        deep = "d/" * (sys.getrecursionlimit() + 100) + "leaf.txt"
        for label, data in (("7z with a member nested deeper than the interpreter's recursion limit (solid)",
                             write7z([("a.txt", _txt("a"), ATTR_FILE), (deep, _txt("leaf"), ATTR_FILE)])),
                            ("7z with a member nested deeper than the interpreter's recursion limit (one folder per file)",
                             write7z([("a.txt", _txt("a"), ATTR_FILE), (deep, _txt("leaf"), ATTR_FILE), ("z.txt", _txt("z"), ATTR_FILE)], per_file_folders=True))):
            results, problems = sb.run(data, "t.7z", "exhaust")
            if problems:
                return report(label, "t.7z", data, "exhaust", problems[0])
    return None


def skip_rules():
    """Hidden members, macOS forks, nested archives and unsupported types never produce results -- in every format, in both orders."""
    mem, forbidden, must = skip_members()
    with Sandbox() as sb:
        for order, members in (("archive order", mem), ("reverse order", mem[::-1])):
            packs = [("zip", "k.zip", write_zip([(n, d, "file") for n, d, _v in members])),
                     ("zip stored", "k.zip", write_zip([(n, d, "file") for n, d, _v in members], zipfile.ZIP_STORED)),
                     ("tar", "k.tar", write_tar([(n, d, "file") for n, d, _v in members])),
                     ("tar.xz", "k.tar.xz", write_tar([(n, d, "file") for n, d, _v in members], "w:xz")),
                     ("7z", "k.7z", write7z([(n, d, ATTR_FILE) for n, d, _v in members])),
                     ("7z without attributes", "k.7z", write7z([(n, d, ATTR_FILE) for n, d, _v in members], False))]
            for kind, name, data in packs:
                label = f"{kind}: visible and invisible members interleaved, {order}"
                results, problems = sb.run(data, name)
                bad = judge(label, name, results, problems, {"forbidden": forbidden, "must": must}, [])
                if bad:
                    return report(label, name, data, "exhaust", bad[0])
    return None


def declared_sizes(limit=1000):
    """7z: bytes that follow the declared end of a member in the pack stream never reach a result, and a member whose declared size is
    within the limit cannot smuggle more than that into memory (one folder per file, and one solid folder)."""
    from sharepoint2text.parsing.extractors import archive_extractor as ae
    tail = ("\n" + _m("past-declared-end") + " bytes after the declared end of the member\n").encode() * (3 * limit // 60)
    a, b = _txt("decl-a"), _txt("decl-b")
    layouts = [("one member, its stream runs past the declared size", [("a.txt", a + tail, ATTR_FILE)], {"a.txt": len(a)}),
               ("two members, the last stream runs past the declared size", [("a.txt", a, ATTR_FILE), ("b.txt", b + tail, ATTR_FILE)], {"b.txt": len(b)})]
    old = ae._config
    ae._config = dataclasses.replace(old, max_memory_size=limit)
    try:
        with Sandbox() as sb:
            for label, members, declared in layouts:
                for per_file in (True, False):
                    for attrs in (True, False):
                        data = write7z(members, attrs, declared=declared, per_file_folders=per_file)
                        results, problems = sb.run(data, "decl.7z")
                        bad = list(problems)
                        for fp, text in results:
                            if _m("past-declared-end") in text:
                                bad.append(f"bytes after the declared end of a member ({declared}) appeared in the result for {fp!r} ({len(text)} characters)")
                            elif len(text) > limit:
                                bad.append(f"a result of {len(text)} characters although every declared member size is within the limit {limit}")
                        if bad:
                            rp = report(f"7z ({'one folder per file' if per_file else 'solid'}): {label}", "decl.7z", data, "exhaust", bad[0])
                            rp["inputs"].update(max_memory_size=limit, declared_sizes=declared, actual_sizes={n: len(d) for n, d, _a in members})
                            return rp
    finally:
        ae._config = old
    return None


def name_collisions_7z(limit=1000):
    """7z members are read back from the temp dir BY PATH: when two entries resolve to one path, the bytes read for a selected member
    may be those of another entry -- one that is above the limit, a macOS fork, or simply a different member."""
    from sharepoint2text.parsing.extractors import archive_extractor as ae
    small, big = _txt("col-small"), _txt("col-big", 3 * limit // 20)
    layouts = [("two entries named dup.txt: within the limit, then above it", [("dup.txt", small, ATTR_FILE), ("dup.txt", big, ATTR_FILE)], [_m("col-big")]),
               ("a.txt, then __MACOSX/../a.txt", [("a.txt", small, ATTR_FILE), ("__MACOSX/../a.txt", _txt("col-fork"), ATTR_FILE)], [_m("col-fork")]),
               ("a.txt within the limit, then ./a.txt above it", [("a.txt", small, ATTR_FILE), ("./a.txt", big, ATTR_FILE)], [_m("col-big")]),
               ("sub/b.txt, then sub//b.txt above the limit", [("sub/b.txt", small, ATTR_FILE), ("sub//b.txt", big, ATTR_FILE)], [_m("col-big")])]
    old = ae._config
    ae._config = dataclasses.replace(old, max_memory_size=limit)
    try:
        with Sandbox() as sb:
            for label, members, forbidden in layouts:
                for per_file in (False, True):
                    data = write7z(members, True, per_file_folders=per_file)
                    results, problems = sb.run(data, "col.7z")
                    bad = judge(label, "col.7z", results, problems, {"forbidden": forbidden}, [])
                    if bad:
                        rp = report(f"7z ({'one folder per file' if per_file else 'solid'}): {label}", "col.7z", data, "exhaust", bad[0])
                        rp["inputs"].update(max_memory_size=limit, members=[(n, len(d)) for n, d, _a in members])
                        return rp
    finally:
        ae._config = old
    return None


class _PinnedNames:
    """stand-in for tempfile's random name sequence: the archive author knows (guessed, read in a log, a retried name) the private directory's name"""

    def __init__(self, name):
        self.name = name

    def __iter__(self):
        return self

    def __next__(self):
        return self.name


def name_collisions_7z_known_temp_name(limit=1000):
    """As name_collisions_7z, but the second spelling of the path leaves the private directory and re-enters it through the directory's own
    name (`../<temp dir name>/a.txt`): lexically inside, so the containment check accepts it, and it names the file of `a.txt`.  The
    temp dir name is random in production; here tempfile's name sequence is pinned (BOUNDED: one pinned name, three layouts)."""
    from sharepoint2text.parsing.extractors import archive_extractor as ae
    pin = "c09pinned"
    d = "tmp" + pin                              # tempfile.TemporaryDirectory(): prefix `tmp` + candidate name
    small, big = _txt("pin-small"), _txt("pin-big", 3 * limit // 20)
    layouts = [(f"a.txt within the limit, then ../{d}/a.txt above it", [("a.txt", small, ATTR_FILE), (f"../{d}/a.txt", big, ATTR_FILE)], [_m("pin-big")]),
               (f"a.txt, then __MACOSX/../../{d}/a.txt", [("a.txt", small, ATTR_FILE), (f"__MACOSX/../../{d}/a.txt", _txt("pin-fork"), ATTR_FILE)], [_m("pin-fork")]),
               (f"sub/b.txt, then sub/../../{d}/sub/b.txt above the limit", [("sub/b.txt", small, ATTR_FILE), (f"sub/../../{d}/sub/b.txt", big, ATTR_FILE)], [_m("pin-big")])]
    old = ae._config
    old_names = getattr(tempfile, "_get_candidate_names", None)
    if old_names is None:
        return None
    ae._config = dataclasses.replace(old, max_memory_size=limit)
    try:
        with Sandbox() as sb:
            for label, members, forbidden in layouts:
                for per_file in (False, True):
                    data = write7z(members, True, per_file_folders=per_file)
                    tempfile._get_candidate_names = lambda: _PinnedNames(pin)
                    try:
                        results, problems = sb.run(data, "col.7z")
                    finally:
                        tempfile._get_candidate_names = old_names
                    bad = judge(label, "col.7z", results, problems, {"forbidden": forbidden}, [])
                    if bad:
                        rp = report(f"7z ({'one folder per file' if per_file else 'solid'}), private directory named {d}: {label}", "col.7z", data, "exhaust", bad[0])
                        rp["inputs"].update(max_memory_size=limit, members=[(n, len(d_)) for n, d_, _a in members], temp_dir_name=d)
                        return rp
    finally:
        tempfile._get_candidate_names = old_names
        ae._config = old
    return None


def oversize_7z(limit=1000):
    """7z members above the per-member limit never produce results (ZIP/TAR: archive_probe.oversize_members)."""
    from sharepoint2text.parsing.extractors import archive_extractor as ae
    big = _txt("big", 3 * limit // 20)
    members = [("a.txt", _txt("a"), ATTR_FILE), ("big.txt", big, ATTR_FILE), ("z.txt", _txt("z"), ATTR_FILE)]
    old = ae._config
    ae._config = dataclasses.replace(old, max_memory_size=limit)
    try:
        with Sandbox() as sb:
            for attrs in (True, False):
                data = write7z(members, attrs)
                results, problems = sb.run(data, "o.7z")
                bad = judge("7z oversize member", "o.7z", results, problems, {"forbidden": [_m("big")], "must": [_m("a"), _m("z")]}, [])
                if bad:
                    rp = report("7z: a member above the per-member limit between two small ones", "o.7z", data, "exhaust", bad[0])
                    rp["inputs"]["max_memory_size"] = limit
                    return rp
    finally:
        ae._config = old
    return None



def rejected_entries_7z(limit=1000):
    """7z: an entry that is not written (a name the containment check refuses, or any other reason to leave an entry out) still owns its
    slice of the folder -- the members that follow it in a solid folder must come out with their own bytes, never with the bytes of the
    entry that was left out (which may be hidden, a fork, unsupported, nested or above the limit)."""
    from sharepoint2text.parsing.extractors import archive_extractor as ae
    old = ae._config
    ae._config = dataclasses.replace(old, max_memory_size=limit)
    big = _txt("rej-big", 3 * limit // 20)
    try:
        with Sandbox() as sb:
            unsafe = ["../evil.txt", "/abs/evil.txt", "a/../../evil.txt", sb.canary, "..\\evil.txt", "C:\\evil.txt"]
            for bad_name in unsafe:
                for tag, content in (("rej-small", _txt("rej-small")), ("rej-big", big)):
                    for tail in ([("good.txt", _txt("rej-good"), ATTR_FILE)],
                                 [("sub/good.md", _txt("rej-good"), ATTR_FILE), ("later.txt", _txt("rej-later"), ATTR_FILE)]):
                        members = [("first.txt", _txt("rej-first"), ATTR_FILE), (bad_name, content, ATTR_FILE)] + tail
                        for per_file in (False, True):
                            data = write7z(members, True, per_file_folders=per_file)
                            results, problems = sb.run(data, "rej.7z")
                            bad = judge("rejected entry", "rej.7z", results, problems, {"forbidden": [_m("rej-big")]}, [])
                            own = {"first.txt": "rej-first", bad_name: tag, "good.txt": "rej-good", "sub/good.md": "rej-good", "later.txt": "rej-later"}
                            for fp, text in results:
                                mine = own.get(fp.split("!/", 1)[-1])
                                for other in sorted(set(own.values()) - {mine}):
                                    if mine is not None and _m(other) in text:
                                        bad.append(f"the result for {fp!r} carries the bytes of another entry ({_m(other)}): {text[:60]!r}")
                            if bad:
                                rp = report(f"7z ({'one folder per file' if per_file else 'solid'}): first.txt, an entry named {bad_name[:40]!r} "
                                            f"({len(content)} bytes), then {', '.join(n for n, _d, _a in tail)}", "rej.7z", data, "exhaust", bad[0])
                                rp["inputs"].update(max_memory_size=limit, members=[(n, len(d)) for n, d, _a in members])
                                return rp
    finally:
        ae._config = old
    return None


def nested_alias_members():
    """Members whose names the router hands to the archive reader although they do not end in one of the nested-archive suffixes
    (the `.gz` / `.bz2` / `.xz` aliases, names the MIME database maps to tar): probed only for its own obligation (recorded finding)."""
    inner_tgz = write_tar([("inner.txt", _txt("alias-tgz"), "file")], "w:gz")
    inner_tbz = write_tar([("inner.txt", _txt("alias-tbz"), "file")], "w:bz2")
    inner_txz = write_tar([("inner.txt", _txt("alias-txz"), "file")], "w:xz")
    mem = [("docs/report.txt", _txt("alias-report")), ("data.gz", inner_tgz), ("deep/DATA.GZ", inner_tgz), ("d.bz2", inner_tbz), ("d.xz", inner_txz),
           ("t.taz", inner_tgz), ("t.tz", inner_tgz)]
    forbidden = [_m(t) for t in ("alias-tgz", "alias-tbz", "alias-txz")]
    with Sandbox() as sb:
        for kind, name, data in (("zip", "k.zip", write_zip([(n, d, "file") for n, d in mem])), ("tar", "k.tar", write_tar([(n, d, "file") for n, d in mem])),
                                 ("7z", "k.7z", write7z([(n, d, ATTR_FILE) for n, d in mem]))):
            label = f"{kind}: members named like compressed files that the router maps to the archive reader"
            results, problems = sb.run(data, name)
            bad = judge(label, name, results, problems, {"forbidden": forbidden, "must": [_m("alias-report")]}, [])
            if bad:
                rp = report(label, name, data, "exhaust", bad[0])
                rp["inputs"]["members"] = [n for n, _d in mem]
                return rp
    return None
