"""Native replayer for C02 (runs under /venv/bin/python with the REAL code from $VERIF_REPO; no z3).

1. Function-level small-scope checks on the real walkers (abstract trees of replay/c02_trees.py turned
   into real ElementTree elements / html dict trees / cell grids).  Used (a) as the witness finder for
   refuted symbolic obligations (`find`), (b) as the BOUNDED stand-ins of functions whose proof over
   arbitrary trees is out of reach (`bounded` CLI, consumed by contracts/C02.py::EXTRA).
2. Document-level generator: abstract documents with unique class-tagged tokens per text leaf rendered to
   docx, pptx, odt, odp, ods (hand-written XML in minimal zips), html, xlsx (openpyxl), rtf, txt; checks
   multiplicity, order, separation by whitespace and absence of excluded-class tokens in get_full_text().
3. `validate_model`: bounded validation of the assumed ElementTree model against xml.etree.

CLI:  /venv/bin/python replay/C02.py bounded|docs|validate-model|find <obligation id>
"""
from __future__ import annotations

import io
import json
import os
import re
import sys
import zipfile

ROOT = os.path.dirname(os.path.dirname(os.path.abspath(__file__)))
if ROOT not in sys.path:
    sys.path.insert(0, ROOT)
_repo = os.environ.get("VERIF_REPO", "/repo")
if _repo not in sys.path:
    sys.path.insert(0, _repo)

from replay import c02_trees as TR  # noqa: E402
from replay.c02_trees import N, Node, Tok, classify, tokens, to_et, to_hdict  # noqa: E402

EX = "sharepoint2text.parsing.extractors."


def _mod(name):
    import importlib
    import logging
    logging.disable(logging.CRITICAL)
    return importlib.import_module(EX + name)


# ============================================================================================
# 1. function-level checks
# ============================================================================================
class Result:
    def __init__(self):
        self.cases = {}

    def add(self, case, ok, witness=None):
        c = self.cases.setdefault(case, {"checked": 0, "failures": 0, "witness": None})
        c["checked"] += 1
        if not ok:
            c["failures"] += 1
            if c["witness"] is None:
                c["witness"] = witness

    def first_failure(self, cases=None, kinds=None):
        for name, c in self.cases.items():
            if cases is not None and name not in cases:
                continue
            w = c["witness"]
            if w is not None and (kinds is None or set(kinds) & set(w.get("kinds", []))):
                return dict(w, case=name)
        return None


def _cmp(target, inp, out, spec, extra=None):
    d = classify(out, spec)
    if d is None:
        return True, None
    w = {"target": target, "inputs": inp, "expected": spec, "observed": out}
    w.update(d)
    if extra:
        w.update(extra)
    return False, w


class Unresolved(Exception):
    """The function a check exercises was not found (renamed / restructured) and there is no way round through the public API."""


def _resolve(M, name, nparams=None, mentions=()):
    """The function `name` of module M; when it is gone, the unique function of M with the same arity whose source mentions
    the given fragments (a renamed helper); else None."""
    import inspect
    f = getattr(M, name, None)
    if f is not None:
        return f
    cands = []
    for _n, obj in vars(M).items():
        if inspect.isfunction(obj) and obj.__module__ == M.__name__:
            try:
                src, k = inspect.getsource(obj), len(inspect.signature(obj).parameters)
            except (OSError, TypeError, ValueError):
                continue
            if (nparams is None or k == nparams) and all(m in src for m in mentions):
                cands.append(obj)
    return cands[0] if len(cands) == 1 else None


def _xml(node):
    from xml.etree import ElementTree as ET
    return '<?xml version="1.0" encoding="UTF-8"?>' + ET.tostring(to_et(node), encoding="unicode")


def _full_text(modname, reader, data, ext):
    M = _mod(modname)
    return "\n".join(x.get_full_text() for x in getattr(M, reader)(data, path="doc." + ext))


def docx_api(*body_children):
    """get_full_text() of a document whose body consists of the given block elements (route through the public reader)."""
    from replay import c02_docs
    doc = N(TR.W + "document", N(TR.W + "body", *body_children))
    return _full_text("ms_modern.docx_extractor", "read_docx", c02_docs.docx_from_document_xml(_xml(doc)), "docx")


def odf_api(body_child, modname, reader, mimetype, ext):
    from replay import c02_docs
    doc = N(TR.q("office", "document-content"), N(TR.q("office", "body"), body_child))
    return _full_text(modname, reader, c02_docs.odf_from_content_xml(_xml(doc), mimetype), ext)


def html_source_of(n):
    void = {"br", "hr", "img", "input", "meta", "link"}
    inner = (n.text or "") + "".join(html_source_of(c) for c in n.children)
    return (f"<{n.tag}>" + ("" if n.tag in void else inner + f"</{n.tag}>")) + (n.tail or "")


DOCX_SPECIAL = {"tab": "tab-break", "br": "tab-break", "cr": "tab-break", "tab-run": "tab-break", "pict-textbox": "vml-textbox",
                "moveFrom": "tracked-move", "ac-textbox": "textbox-paragraphs"}


def check_docx_paragraph():
    DX = _mod("ms_modern.docx_extractor")
    f = _resolve(DX, "_extract_paragraph_content", 2, ['"".join('])
    run = (lambda p: f(to_et(p), True)) if f else (lambda p: docx_api(p))
    r = Result()
    for name, p in TR.gen_docx_paragraphs():
        sp = {DOCX_SPECIAL[x.split("@")[0]] for x in name.split("+") if x.split("@")[0] in DOCX_SPECIAL}
        if len(sp) > 1:
            continue
        case = next(iter(sp)) if sp else "plain"
        out = run(p)
        ok, w = _cmp("docx_extractor._extract_paragraph_content", p.brief(), out, TR.docx_par(p), {"xml": p.xml()})
        r.add(case, ok, w)
    return r


def check_docx_table():
    DX = _mod("ms_modern.docx_extractor")
    f = _resolve(DX, "_extract_table_text", 2, ["W_TR", "W_TC"])
    r = Result()
    for kind, t in TR.gen_docx_tables():
        out = "\n".join(f(to_et(t), True)) if f else docx_api(t)
        ok, w = _cmp("docx_extractor._extract_table_text", t.brief(), out, "\n".join(TR.docx_table(t)), {"xml": t.xml()})
        r.add(kind, ok, w)
    return r


def check_docx_body():
    DX = _mod("ms_modern.docx_extractor")
    f = _resolve(DX, "_extract_full_text_from_body", 2, ["W_TBL", "W_SDT"])
    r = Result()
    for kind, b in TR.gen_docx_bodies():
        out = f(to_et(b), True) if f else docx_api(*b.children)
        ok, w = _cmp("docx_extractor._extract_full_text_from_body", b.brief(), out, TR.docx_body(b), {"xml": b.xml()})
        r.add(kind.split(":")[0], ok, w)
    return r


def _singles_then_pairs(gen, run, spec, target):
    """Feature documents: every feature alone (case = feature), then all pairs of features that pass alone
    (case 'combinations')."""
    r = Result()
    docs = list(gen)
    good = set()
    for name, d in docs:
        if "+" in name:
            continue
        ok, w = _cmp(target, d.brief(), run(d), spec(d), {"xml": d.xml() if not d.tag == "body" else None})
        r.add(name, ok, w)
        if ok:
            good.add(name)
    for name, d in docs:
        if "+" not in name or not all(x in good for x in name.split("+")):
            continue
        ok, w = _cmp(target, d.brief(), run(d), spec(d))
        r.add("combinations", ok, w)
    return r


def check_odt_body():
    OD = _mod("open_office.odt_extractor")
    f = getattr(OD, "_extract_full_text", None)
    run = (lambda d: f(to_et(d))) if f else (lambda d: odf_api(d, "open_office.odt_extractor", "read_odt", "application/vnd.oasis.opendocument.text", "odt"))
    return _singles_then_pairs(TR.gen_odt_bodies(), run, TR.odt_body,
                               "odt_extractor._extract_full_text")


def check_odg_text():
    OG = _mod("open_office.odg_extractor")
    f = getattr(OG, "_extract_full_text", None)
    run = (lambda d: f(to_et(d))) if f else (lambda d: odf_api(d, "open_office.odg_extractor", "read_odg", "application/vnd.oasis.opendocument.graphics", "odg"))
    return _singles_then_pairs(TR.gen_odg_roots(), run, TR.odg_text, "odg_extractor._extract_full_text")


def check_pptx_paragraphs():
    PX = _mod("ms_modern.pptx_extractor")
    f = _resolve(PX, "_extract_text_from_paragraphs", 1, ["A_P", "A_BR"])

    def api(tx):
        from replay import c02_docs
        from xml.etree import ElementTree as ET
        P = "{http://schemas.openxmlformats.org/presentationml/2006/main}"
        body = ET.tostring(to_et(N(P + "txBody", *tx.children)), encoding="unicode")
        slide = (f'<?xml version="1.0"?><p:sld {c02_docs.PPTX_XMLNS}><p:cSld><p:spTree><p:nvGrpSpPr><p:cNvPr id="1" name=""/><p:cNvGrpSpPr/><p:nvPr/></p:nvGrpSpPr><p:grpSpPr/>'
                 '<p:sp><p:nvSpPr><p:cNvPr id="2" name="s"/><p:cNvSpPr/><p:nvPr/></p:nvSpPr><p:spPr/>' + body + "</p:sp></p:spTree></p:cSld></p:sld>")
        return _full_text("ms_modern.pptx_extractor", "read_pptx", c02_docs.pptx_from_slide_xml(slide), "pptx")
    r = Result()
    for tx in TR.gen_pptx_bodies():
        ok, w = _cmp("pptx_extractor._extract_text_from_paragraphs", tx.brief(), f(to_et(tx)) if f else api(tx), TR.pptx_body_text(tx))
        r.add("paragraphs", ok, w)
    return r


def check_html_source():
    """html.parser + _HtmlTreeBuilder + text walk on source text (read_html)."""
    H = _mod("html_extractor")
    r = Result()
    for case, src, spec in TR.gen_html_sources():
        res = list(H.read_html(io.BytesIO(src.encode("utf-8"))))
        out = "\n".join(x.get_full_text() for x in res)
        ok, w = _cmp("html_extractor.read_html(...).get_full_text()", src, out, spec)
        r.add(case, ok, w)
    return r


RTF_EXCLUDED = ("header", "footer", "fonttbl", "colortbl", "stylesheet", "info", "pict")     # from the statement (contracts/C02.py::RTF_EXCLUDED)
RTF_BODY_WORDS = ("par", "pard", "plain", "b", "b0", "i", "f0", "fs24", "tab", "line", "cell", "row", "u8364", "'e9", "cf1", "qc", "li720", "sect")


def check_rtf_skip():
    """_RtfParser._is_skip_destination on lookaheads: the destination test of the group walker (function level).
    Spec from the statement: ignorable destinations and headers / footers / non-text tables are skipped, body control words are not."""
    import inspect
    R = _mod("ms_legacy.rtf_extractor")
    cls = getattr(R, "_RtfParser", None)
    if cls is None:
        raise Unresolved("_RtfParser")
    f = getattr(cls, "_is_skip_destination", None)
    if f is None:
        cands = [o for _n, o in vars(cls).items() if inspect.isfunction(o) and len(inspect.signature(o).parameters) == 2
                 and "startswith" in inspect.getsource(o) and "return" in inspect.getsource(o)]
        if len(cands) != 1:
            raise Unresolved("_RtfParser._is_skip_destination")
        f = cands[0]
    me = cls.__new__(cls)
    r = Result()

    def one(case, ahead, want):
        try:
            got = bool(f(me, ahead))
        except Exception as e:  # noqa
            got = f"{type(e).__name__}: {e}"
        ok = got is want
        r.add(case, ok, None if ok else {"target": "rtf_extractor._RtfParser._is_skip_destination", "inputs": repr(ahead), "expected": repr(want),
                                         "observed": repr(got), "kinds": ["leaked" if want else "lost"]})
    for d in RTF_EXCLUDED:
        for tail_ in (" x", "\\pard x", "l x", "1 x", ""):
            one("excluded-destination", "\\" + d + tail_, True)
    for tail_ in ("\\annotation x", "\\unknowndest x", ""):
        one("ignorable-destination", "\\*" + tail_, True)
    for w in RTF_BODY_WORDS:
        for tail_ in (" text", "\\b text", ""):
            one("body-control-word", "\\" + w + tail_, False)
    for d in RTF_EXCLUDED:
        one("destination-name-as-text", d + " text", False)
    return r


def check_dt_units():
    """data_types._join_unit_text on lists of 0..3 units with given texts (function level): every unit text once, in order, separated."""
    import itertools
    D = _mod("data_types")
    f = _resolve(D, "_join_unit_text", 1, ["get_text"])
    if f is None:
        raise Unresolved("_join_unit_text")

    class U:
        def __init__(self, t):
            self.t = t

        def get_text(self):
            return self.t
    r = Result()
    texts = ["UA1 one", "", "UB2\ttwo", " UC3 "]
    for n in range(4):
        for combo in itertools.product(texts, repeat=n):
            if len([t for t in combo if t.strip()]) != len({t for t in combo if t.strip()}):
                continue            # tokens are unique per document
            ok, w = _cmp("data_types._join_unit_text", repr(list(combo)), f(iter([U(t) for t in combo])), "\n".join(combo))
            r.add("units", ok, w)
    return r


def check_rtf_source():
    """read_rtf on source text: destination stripping (regexes + group walker)."""
    R = _mod("ms_legacy.rtf_extractor")
    r = Result()
    for case, src, spec in TR.gen_rtf_sources():
        res = list(R.read_rtf(io.BytesIO(src.encode("ascii"))))
        out = "\n".join(x.get_full_text() for x in res)
        ok, w = _cmp("rtf_extractor.read_rtf(...).get_full_text()", src, out, spec)
        r.add(case, ok, w)
    return r


def utf16_units_text(units):
    """What a run of \\uN escapes means (RTF 1.9: N is a signed 16-bit UTF-16 code unit): a high surrogate followed by a low one
    is ONE character beyond the BMP; a surrogate without partner is not a character (U+FFFD keeps the text encodable); every
    other unit is the character with that code.  Written from the definition of UTF-16, independent of the codec."""
    out, i = [], 0
    while i < len(units):
        u = units[i] & 0xFFFF
        if 0xD800 <= u <= 0xDBFF and i + 1 < len(units) and 0xDC00 <= (units[i + 1] & 0xFFFF) <= 0xDFFF:
            out.append(chr(0x10000 + ((u - 0xD800) << 10) + ((units[i + 1] & 0xFFFF) - 0xDC00)))
            i += 2
            continue
        out.append("\ufffd" if 0xD800 <= u <= 0xDFFF else chr(u))
        i += 1
    return "".join(out)


def check_rtf_unicode():
    """\\uN escape runs: the decoder function on every run of <= 3 code units of a pool (ASCII, Latin-1, BMP, private use written
    as a negative number, high / low surrogates, U+FFFD, U+FFFF), signed and unsigned spelling; then read_rtf on paragraphs and
    table cells that contain such runs between ordinary words (exact characters, whitespace aside)."""
    import itertools
    R = _mod("ms_legacy.rtf_extractor")
    r = Result()
    pool = [0x41, 0xE9, 0x20AC, 0xF0B7, 0x4E2D, 0xD83D, 0xDE00, 0xD840, 0xDC00, 0xDBFF, 0xDFFF, 0xFFFD, 0xFFFF]
    sur = lambda u: 0xD800 <= u <= 0xDFFF

    def case_of(units):
        pairs = any(0xD800 <= a <= 0xDBFF and 0xDC00 <= b <= 0xDFFF for a, b in zip(units, units[1:]))
        return "surrogate-pair" if pairs else ("lone-surrogate" if any(sur(u) for u in units) else "bmp")
    esc = lambda units, signed, ph="?": "".join("\\u%d%s" % (u - 0x10000 if signed and u >= 0x8000 else u, ph) for u in units)
    f = _resolve(R, "_decode_unicode_run", 1, ["findall"])
    if f is not None:
        for k in (1, 2, 3):
            for units in itertools.product(pool, repeat=k):
                for signed in (True, False):
                    run = esc(units, signed)
                    want = utf16_units_text(units)
                    try:
                        got = f(run)
                    except Exception as e:  # noqa
                        got = f"<{type(e).__name__}: {e}>"
                    r.add(case_of(units), got == want, {"target": "rtf_extractor._decode_unicode_run", "inputs": run, "expected": ascii(want), "observed": ascii(got),
                                                        "kinds": ["lost", "leaked"] if len(got) != len(want) or sur(units[0]) else ["other"]})
    PRO = "{\\rtf1\\ansi\\deff0{\\fonttbl{\\f0 Arial;}}\n"
    nw = lambda t: "".join(t.split())
    for k in (1, 2, 3):
        for units in itertools.product([0xE9, 0xF0B7, 0xD83D, 0xDE00, 0xD840, 0xDC00], repeat=k):
            for signed, where in ((True, "paragraph"), (False, "paragraph"), (True, "cell")):
                text = utf16_units_text(units)
                body = "V1v " + esc(units, signed) + " V2v"
                src = PRO + ("\\pard\\plain " + body + "\\par\n" if where == "paragraph" else "\\trowd\\cellx3000 \\pard\\intbl " + body + "\\cell\\row\n") + "}"
                try:
                    out = "\n".join(x.get_full_text() for x in R.read_rtf(io.BytesIO(src.encode("ascii"))))
                except Exception as e:  # noqa
                    out = f"<{type(e).__name__}: {e}>"
                want = "V1v " + text + " V2v"
                r.add(case_of(units) + "-in-document", nw(out) == nw(want), {"target": "rtf_extractor.read_rtf(...).get_full_text()", "inputs": src, "expected": ascii(want),
                                                                            "observed": ascii(out), "kinds": ["lost", "leaked"]})
    return r


def check_epub_source():
    """read_epub on one XHTML chapter built from the same source grammar (html.parser based _XhtmlTextExtractor)."""
    E = _mod("epub_extractor")
    from replay import c02_docs
    r = Result()
    for case, src, spec in TR.gen_html_sources():
        if "<div>" not in src:
            continue
        body = src.split("<body>", 1)[1].rsplit("</body>", 1)[0].replace("<br>", "<br/>").replace("<img src=x>", '<img src="x"/>')
        files = dict(c02_docs.EPUB_SKELETON)
        files["OEBPS/c1.xhtml"] = '<?xml version="1.0"?><html xmlns="http://www.w3.org/1999/xhtml"><head><title>c1</title></head><body>' + body + "</body></html>"
        res = list(E.read_epub(c02_docs._zip(files)))
        out = "\n".join(x.get_full_text() for x in res)
        ok, w = _cmp("epub_extractor.read_epub(...).get_full_text()", files["OEBPS/c1.xhtml"], out, spec)
        r.add(case, ok, w)
    return r


def check_pptx_shape_tree():
    """read_pptx on one slide whose shape tree nests shapes in groups and in mc:AlternateContent (every shape with visible
    text once; the Fallback branch is the alternative rendering of the same content)."""
    import itertools
    from replay import c02_docs as D
    MCN = 'xmlns:mc="http://schemas.openxmlformats.org/markup-compatibility/2006"'
    r = Result()

    def frame(tok, y):
        return ('<p:graphicFrame><p:nvGraphicFramePr><p:cNvPr id="9" name="t"/><p:cNvGraphicFramePr/><p:nvPr/></p:nvGraphicFramePr>'
                f'<p:xfrm><a:off x="100" y="{y}"/><a:ext cx="10" cy="10"/></p:xfrm><a:graphic><a:graphicData uri="http://schemas.openxmlformats.org/drawingml/2006/table">'
                f"<a:tbl><a:tr><a:tc><a:txBody><a:bodyPr/><a:p><a:r><a:t>{tok}</a:t></a:r></a:p></a:txBody></a:tc></a:tr></a:tbl></a:graphicData></a:graphic></p:graphicFrame>")
    pic = '<p:pic><p:nvPicPr><p:cNvPr id="8" name="fallback picture"/><p:cNvPicPr/><p:nvPr/></p:nvPicPr><p:blipFill/><p:spPr/></p:pic>'
    grp = lambda inner: '<p:grpSp><p:nvGrpSpPr><p:cNvPr id="7" name="g"/><p:cNvGrpSpPr/><p:nvPr/></p:nvGrpSpPr><p:grpSpPr/>' + inner + "</p:grpSp>"
    ac = lambda choice, fallback: f'<mc:AlternateContent {MCN}><mc:Choice Requires="a14">{choice}</mc:Choice><mc:Fallback>{fallback}</mc:Fallback></mc:AlternateContent>'

    def alts(tk, y):
        sp = lambda: D.pptx_shape(10 + next(y), None, [[("t", tk.v())]], 1000 * next(y))
        return {
            "shape": lambda: sp(),
            "table": lambda: frame(tk.v(), 1000 * next(y)),
            "group": lambda: grp(sp() + sp()),
            "nested-group": lambda: grp(sp() + grp(sp())),
            "alternate-content": lambda: ac(sp(), pic),
            "alternate-content-table": lambda: ac(frame(tk.v(), 1000 * next(y)), pic),
            "alternate-content-in-group": lambda: grp(sp() + ac(sp(), pic)),
            "group-in-alternate-content": lambda: ac(grp(sp() + sp()), pic),
            # the Fallback branch renders the SAME content for old readers (here: as a shape with the same text)
            "fallback-shape-repeats-choice": lambda: (lambda s_: ac(s_, s_))(sp()),
        }
    names = list(alts(Tok(), itertools.count(1)))
    for k in (1, 2):
        for combo in itertools.product(names, repeat=k):
            tk, y = Tok(), itertools.count(1)
            a = alts(tk, y)
            title = D.pptx_shape(2, "title", [[("t", tk.v())]], 100)
            shapes = "".join(a[c]() for c in combo)
            slide = (f'<?xml version="1.0"?><p:sld {D.PPTX_XMLNS}><p:cSld><p:spTree><p:nvGrpSpPr><p:cNvPr id="1" name=""/><p:cNvGrpSpPr/><p:nvPr/></p:nvGrpSpPr><p:grpSpPr/>'
                     + title + shapes + "</p:spTree></p:cSld></p:sld>")
            out = _full_text("ms_modern.pptx_extractor", "read_pptx", D.pptx_from_slide_xml(slide), "pptx")
            want = " ".join(f"V{i}v" for i in range(1, tk.n + 1))
            case = "fallback-shape-repeats-choice" if "fallback-shape-repeats-choice" in combo else "alternate-content" if any("alternate" in c for c in combo) else ("groups" if any("group" in c for c in combo) else "plain")
            ok, w = _cmp("pptx_extractor.read_pptx(...).get_full_text()", shapes, out, want)
            r.add(case, ok, w)
    return r


def _cells_ok(cells, specs, inline_only):
    """Every extracted cell string against its specified text: nothing lost / duplicated / leaked (nw image); pieces that a
    block or line-break boundary separates stay separate words (token sequence).  Inline markup inside one word is only held
    to the nw image (whitespace added inside it is not a violation of the statement)."""
    if len(cells) != len(specs):
        return False
    for got, want, inl in zip(cells, specs, inline_only):
        if TR.nw(got) != TR.nw(want):
            return False
        if not inl and tokens(got) != tokens(want):
            return False
    return True


def check_epub_tables():
    """Table cells of an EPUB chapter (documented through iterate_tables(), not part of the chapter text)."""
    import itertools
    E = _mod("epub_extractor")
    from replay import c02_docs

    def alts(tk):
        return {
            "plain": lambda: (lambda a: (a, a, False))(tk.v()),
            "two-words": lambda: (lambda a, b: (a + " " + b, a + " " + b, False))(tk.v(), tk.v()),
            "inline-markup": lambda: (lambda a, b: (f"{a}<sub>{b}</sub>", a + b, True))(tk.v(), tk.v()),
            "br": lambda: (lambda a, b: (f"{a}<br/>{b}", a + "\n" + b, False))(tk.v(), tk.v()),
            "paragraphs": lambda: (lambda a, b: (f"<p>{a}</p><p>{b}</p>", a + "\n" + b, False))(tk.v(), tk.v()),
            "list": lambda: (lambda a, b: (f"<ul><li>{a}</li><li>{b}</li></ul>", a + "\n" + b, False))(tk.v(), tk.v()),
            "div-then-text": lambda: (lambda a, b: (f"<div>{a}</div>{b}", a + "\n" + b, False))(tk.v(), tk.v()),
            "removed-markup": lambda: (lambda a: (f"{a}<script>{tk.x('RM')}</script>", a, False))(tk.v()),
        }
    names = list(alts(Tok()))
    r = Result()
    for combo in itertools.chain(((n,) for n in names), itertools.product(names, repeat=2)):
        tk = Tok()
        a = alts(tk)
        cells = [a[c]() for c in combo]
        before, after = tk.v(), tk.v()
        body = f"<p>{before}</p><table><tr>" + "".join(f"<td>{src}</td>" for src, _w, _i in cells) + f"</tr></table><p>{after}</p>"
        files = dict(c02_docs.EPUB_SKELETON)
        files["OEBPS/c1.xhtml"] = '<?xml version="1.0"?><html xmlns="http://www.w3.org/1999/xhtml"><head><title>c1</title></head><body>' + body + "</body></html>"
        res = list(E.read_epub(c02_docs._zip(files)))
        tables = [t.data if hasattr(t, "data") else t for x in res for t in x.iterate_tables()]
        got = [c for t in tables for row in t for c in row]
        ok = _cells_ok(got, [w for _s, w, _i in cells], [i for _s, _w, i in cells])
        kinds = {"paragraphs", "list", "div-then-text"} & set(combo)
        case = "block-boundaries-in-cell" if kinds else "cells"
        w = None if ok else {"target": "epub_extractor.read_epub(...).iterate_tables()", "inputs": body, "expected": repr([w for _s, w, _i in cells]), "observed": repr(got),
                             "kinds": ["merged" if [TR.nw(g) for g in got] == [TR.nw(w) for _s, w, _i in cells] else "lost-or-duplicated"]}
        r.add(case, ok, w)
    return r


def check_odp_tables():
    """Table cells of an ODP slide (documented through iterate_tables())."""
    import itertools
    OP = _mod("open_office.odp_extractor")
    cell = lambda *kids: N(TR.TB_CELL, *kids)

    def alts(tk):
        return {
            "plain": lambda: (lambda a: (cell(TR.tp(a)), a))(tk.v()),
            "paragraphs": lambda: (lambda a, b: (cell(TR.tp(a), TR.tp(b)), a + "\n" + b))(tk.v(), tk.v()),
            "span-and-break": lambda: (lambda a, b, c: (cell(N(TR.T_P, N(TR.T_SPAN, text=b), N(TR.T_LB, tail=c), text=a)), a + b + "\n" + c))(tk.v(), tk.v(), tk.v()),
            "list": lambda: (lambda a, b: (cell(TR.tlist([TR.tp(a)], [TR.tp(b)])), a + "\n" + b))(tk.v(), tk.v()),
            "comment": lambda: (lambda a: (cell(N(TR.T_P, N(TR.O_ANNOT, TR.tp(tk.x("COM"))), text=a)), a))(tk.v()),
            "empty": lambda: (cell(), ""),
        }
    names = list(alts(Tok()))
    r = Result()
    for combo in itertools.chain(((n,) for n in names), itertools.product(names, repeat=2)):
        tk = Tok()
        a = alts(tk)
        cells = [a[c]() for c in combo]
        page = N(TR.q("draw", "page"), N(TR.D_FRAME, N(TR.D_TEXTBOX, N(TR.T_P, text=tk.v(), **{TR.q("text", "style-name"): "TitleText"}))),
                 N(TR.D_FRAME, N(TR.TB_TABLE, N(TR.TB_ROW, *[c for c, _w in cells]))))
        from replay import c02_docs
        doc = N(TR.q("office", "document-content"), N(TR.q("office", "body"), N(TR.q("office", "presentation"), page)))
        res = list(OP.read_odp(c02_docs.odf_from_content_xml(_xml(doc), "application/vnd.oasis.opendocument.presentation"), path="d.odp"))
        tables = [t.data if hasattr(t, "data") else t for x in res for t in x.iterate_tables()]
        got = [c for t in tables for row in t for c in row]
        ok = _cells_ok(got, [w for _c, w in cells], [False] * len(cells))
        w = None if ok else {"target": "odp_extractor.read_odp(...).iterate_tables()", "inputs": page.brief(), "expected": repr([w for _c, w in cells]), "observed": repr(got), "kinds": ["cells"]}
        r.add("comment" if "comment" in combo else "cells", ok, w)
    return r


def check_plain_decode():
    """read_plain_text on encoded bytes: the text comes back character for character (nw image), whatever the size of the
    file and wherever its first non-ASCII character is (encoding detection must not be blind to a part of the file)."""
    from replay.c02_trees import nw
    r = Result()
    words = ["Grüße", "naïve", "Žlutý", "кириллица", "東京"]
    filler = ("plain ascii line number %06d of a long export file\n" * 1)
    for size_kib in (1, 300, 1100):
        nlines = max(2, size_kib * 1024 // 48)
        lines = [filler % i for i in range(nlines)]
        for where in ("early", "late"):
            for enc in ("utf-8", "utf-8-sig", "utf-16"):
                body = list(lines)
                marked = "".join(f"name {w} end\n" for w in words)
                body.insert(1 if where == "early" else len(body) - 1, marked)
                text = "".join(body)
                out = _full_text("plain_extractor", "read_plain_text", io.BytesIO(text.encode(enc)), "txt")
                ok = nw(out) == nw(text)
                w = None
                if not ok:
                    bad = next((i for i, (a, b) in enumerate(zip(nw(out), nw(text))) if a != b), min(len(nw(out)), len(nw(text))))
                    w = {"target": "plain_extractor.read_plain_text(...).get_full_text()", "kinds": ["lost", "invented"] if "\ufffd" in out else ["lost"],
                         "inputs": f"{size_kib} KiB of {enc} text, non-ASCII words {words} placed {where}", "expected": nw(text)[max(0, bad - 20):bad + 40],
                         "observed": nw(out)[max(0, bad - 20):bad + 40]}
                r.add("small-file" if size_kib == 1 else f"large-file-non-ascii-{where}", ok, w)
    return r


def check_odp_slide():
    import itertools
    OP = _mod("open_office.odp_extractor")
    f = _resolve(OP, "_extract_slide", 4, ["body_text", "other_text"])
    r = Result()
    for case, page in itertools.chain(TR.gen_odp_pages(), TR.gen_odp_shape_pages()):
        if f:
            slide, _n = f(None, to_et(page), 1)
            out = slide.text_combined
        else:
            out = odf_api(N(TR.q("office", "presentation"), page), "open_office.odp_extractor", "read_odp", "application/vnd.oasis.opendocument.presentation", "odp")
        want = TR.odp_page_tokens(page)
        got = sorted(TR.tokens(out))
        ok = got == want
        w = None
        if not ok:
            d = classify(" ".join(got), " ".join(want)) or {}
            w = dict(d, target="odp_extractor._extract_slide(...)[0].text_combined", inputs=page.brief(), expected=" ".join(want), observed=out)
        r.add(case, ok, w)
    return r


def check_html_body():
    H = _mod("html_extractor")
    cls = getattr(H, "_HtmlTextExtractor", None)
    if cls is not None and hasattr(cls, "extract"):
        run = lambda d: cls(to_hdict(N("root", d))).extract()
    else:           # through the parser and the public reader
        run = lambda d: _full_text("html_extractor", "read_html", io.BytesIO(("<html>" + html_source_of(d) + "</html>").encode("utf-8")), "html")
    return _singles_then_pairs(TR.gen_html_bodies(), run,
                               TR.html_text, "html_extractor._HtmlTextExtractor.extract")


def check_odf_text():
    """Validation of the proved contract on concrete trees (also guards the spec transcription)."""
    SH = _mod("open_office._shared")
    r = Result()
    import itertools
    tk = Tok()
    leafs = [lambda: N(TR.T_SPAN, text=tk.v(), tail=tk.v()), lambda: N(TR.T_S, tail=tk.v()), lambda: N(TR.T_S, **{TR.T_C: "3"}),
             lambda: N(TR.T_S, **{TR.T_C: "x"}), lambda: N(TR.T_S, **{TR.T_C: "0"}), lambda: N(TR.T_TAB), lambda: N(TR.T_LB, tail=tk.v()),
             lambda: N(TR.T_NOTE, N(TR.T_P, text=tk.x("NOTE")), tail=tk.v()), lambda: N(TR.T_SPAN, N(TR.T_SPAN, N(TR.T_TAB), text=tk.v()))]
    for k in (0, 1, 2, 3):
        for combo in itertools.product(range(len(leafs)), repeat=k):
            p = N(TR.T_P, *[leafs[i]() for i in combo], text=tk.v() if k % 2 else None)
            for skip in (frozenset(), frozenset({TR.T_NOTE})):
                out = SH.element_text(to_et(p), text_space_tag=TR.T_S, text_tab_tag=TR.T_TAB, text_line_break_tag=TR.T_LB,
                                      attr_text_c=TR.T_C, skip_tags=set(skip) or None)
                spec = TR.odf_text(p, skip=skip)
                r.add("exact", out == spec, {"target": "_shared.element_text", "inputs": p.brief(), "expected": spec, "observed": out})
    return r


def _ods_table(grid, row_repeat=None, cell_repeat=None):
    rows = []
    for ri, row in enumerate(grid):
        cells = []
        for ci, v in enumerate(row):
            att = {}
            if cell_repeat and (ri, ci) in cell_repeat:
                att[TR.q("table", "number-columns-repeated")] = str(cell_repeat[(ri, ci)])
            if v == "":
                cells.append(N(TR.TB_CELL, **att))
            elif isinstance(v, tuple):
                # typed cell: (value-type, value, displayed text); the value attribute is what the sheet text shows
                vt, val, shown = v
                att[TR.q("office", "value-type")] = vt
                att[TR.q("office", {"boolean": "boolean-value", "date": "date-value", "time": "time-value"}.get(vt, "value"))] = val
                cells.append(N(TR.TB_CELL, N(TR.T_P, text=shown), **att))
            else:
                att[TR.q("office", "value-type")] = "string"
                cells.append(N(TR.TB_CELL, *[N(TR.T_P, text=line) for line in v.split("\n")], **att))
        att = {}
        if row_repeat and ri in row_repeat:
            att[TR.q("table", "number-rows-repeated")] = str(row_repeat[ri])
        rows.append(N(TR.TB_ROW, *cells, **att))
    return N(TR.TB_TABLE, *rows, **{TR.q("table", "name"): "S1"})


def check_ods_sheet():
    ODS = _mod("open_office.ods_extractor")
    f = _resolve(ODS, "_extract_sheet", 4, ["number-rows-repeated", "raw_rows"]) or _resolve(ODS, "_extract_sheet", 4, ["_ATTR_TABLE_REPEAT_ROWS"])

    def sheet_text(t):
        if f:
            return f(None, to_et(t), 1, 0)[0].text
        full = odf_api(N(TR.q("office", "spreadsheet"), t), "open_office.ods_extractor", "read_ods", "application/vnd.oasis.opendocument.spreadsheet", "ods")
        return full.split("\n", 1)[1] if "\n" in full else ""          # first line: the sheet name (documented decoration)
    r = Result()
    for grid in TR.gen_grids(3, 3):
        t = _ods_table(grid)
        ok, w = _cmp("ods_extractor._extract_sheet(...).text", t.brief(), sheet_text(t), TR.sheet_text(grid))
        r.add("grid", ok, w)
    # repeated rows / cells: the repeated content is source content the same number of times
    # typed cells: numbers, booleans, currency ... (falsy values such as 0 / false are values, not blanks)
    import itertools
    kinds = {"s": lambda tk: tk.v(), "e": lambda tk: "", "zero": lambda tk: ("float", "0", "0"), "num": lambda tk: ("float", "7", "7"),
             "false": lambda tk: ("boolean", "false", "FALSE"), "true": lambda tk: ("boolean", "true", "TRUE"),
             "cur0": lambda tk: ("currency", "0", "0,00 EUR"), "pct": lambda tk: ("percentage", "0.5", "50 %")}
    shown = lambda v: v[1] if isinstance(v, tuple) else v
    falsy = {"zero", "false", "cur0", "e"}
    for nrows in (1, 2, 3):
        head = itertools.product(kinds, repeat=(nrows - 1) * 2) if nrows < 3 else itertools.product(("s", "zero"), repeat=4)
        for combo in (h + l for h in head for l in itertools.product(kinds, repeat=2)):
            tk = Tok()
            grid = [[kinds[combo[2 * r + c]](tk) for c in range(2)] for r in range(nrows)]
            last = combo[-2:]
            case = "typed-cells"
            if set(last) <= falsy and set(last) != {"e"}:
                case = "last-row-only-zero-or-false"
            t = _ods_table(grid)
            spec = TR.sheet_text([[shown(v) for v in row] for row in grid])
            ok, w = _cmp("ods_extractor._extract_sheet(...).text", t.brief(), sheet_text(t), spec)
            r.add(case, ok, w)
    for big in (101, 150):
        tk = Tok()
        a = tk.v()
        grid = [[a], [("float", "0", "0")], [tk.v()]]
        t = _ods_table(grid, row_repeat={1: big})
        spec = TR.sheet_text([[a]] + [["0"]] * big + [[shown(grid[2][0])]])
        ok, w = _cmp("ods_extractor._extract_sheet(...).text", t.brief()[:300], sheet_text(t), spec)
        r.add("repeated-zero-row", ok, w)
    tk = Tok()
    for rep in (2, 3):
        a, b, c = tk.v(), tk.v(), tk.v()
        grid = [[a, b], [c]]
        t = _ods_table(grid, row_repeat={1: rep}, cell_repeat={(0, 1): rep})
        spec = TR.sheet_text([[a] + [b] * rep] + [[c]] * rep)
        ok, w = _cmp("ods_extractor._extract_sheet(...).text", t.brief(), sheet_text(t), spec)
        r.add("repeats", ok, w)
    return r


def check_xlsx_format():
    XL = _mod("ms_modern.xlsx_extractor")
    f = _resolve(XL, "_format_sheet_as_text", 1, ["rjust"])
    if f is None:
        raise Unresolved("xlsx_extractor._format_sheet_as_text")
    r = Result()
    for grid in TR.gen_grids(3, 3):
        rows = [[(c if c != "" else None) for c in row] for row in grid]
        out = f(rows)
        ok, w = _cmp("xlsx_extractor._format_sheet_as_text", repr(rows), out, TR.sheet_text(grid))
        r.add("grid", ok, w)
    return r


def check_xls_format():
    XL = _mod("ms_legacy.xls_extractor")
    f = _resolve(XL, "_format_sheet_as_text", 2, ["rjust"])
    if f is None:
        raise Unresolved("xls_extractor._format_sheet_as_text")
    r = Result()
    for grid in TR.gen_grids(3, 3, ragged=False):
        if not grid:
            continue
        out = f(list(grid[0]), [list(x) for x in grid[1:]])
        ok, w = _cmp("xls_extractor._format_sheet_as_text", repr(grid), out, TR.sheet_text(grid))
        r.add("grid", ok, w)
    return r


def check_dt_slides():
    """data_types slide assembly on real objects (witness finder for the symbolic obligations)."""
    import itertools
    DT = _mod("data_types")
    r = Result()
    for nb, no, has_title, nn in itertools.product((0, 1, 2), (0, 1, 2), (False, True), (0, 1)):
        tk = Tok()
        title = tk.v() if has_title else None
        body, other, notes = [tk.v() for _ in range(nb)], [tk.v() for _ in range(no)], [tk.x("NOTE") for _ in range(nn)]
        spec = "\n".join(([title] if title else []) + body + other)
        for cls, tt in ((DT.PptSlideContent, title), (DT.OdpSlide, title or "")):
            obj = cls(slide_number=1, title=tt, body_text=list(body), other_text=list(other), notes=list(notes))
            ok, w = _cmp(f"data_types.{cls.__name__}.text_combined", repr(dict(title=tt, body_text=body, other_text=other, notes=notes)), obj.text_combined, spec)
            r.add(cls.__name__, ok, w)
    for nf, ni, has_base, inc in itertools.product((0, 1, 2), (0, 1, 2), (False, True), (False, True)):
        tk = Tok()
        base = tk.v() + "\n" + tk.v() if has_base else ""
        forms = [DT.PptxFormula(latex=tk.v(), is_display=bool(k % 2)) for k in range(nf)]
        imgs = [DT.PptxImage(description=(tk.v() if k == 0 else "")) for k in range(ni)]
        sl = DT.PptxSlide(slide_number=1, base_text=base, formulas=forms, images=imgs, footer=tk.x("HF"),
                          comments=[DT.PptxComment(author="a", text=tk.x("COM"))], text=tk.x("COM"))
        spec = "\n".join(([base] if base else []) + [f.latex for f in forms] + ([i.description for i in imgs if i.description] if inc else []))
        ok, w = _cmp("data_types.PptxSlide.get_text", repr(dict(base_text=base, formulas=[f.latex for f in forms], images=[i.description for i in imgs], include_image_captions=inc)),
                     sl.get_text(include_image_captions=inc), spec.replace("[", " ").replace("]", " "))
        # decoration "[Image: ...]" / "$": compare on generator tokens only
        r.add("PptxSlide", ok or [t for t in TR.tokens(sl.get_text(include_image_captions=inc)) if t != "Image"] == TR.tokens(spec), w)
    return r


CHECKS = {
    "docx.paragraph": check_docx_paragraph, "docx.table": check_docx_table, "docx.body": check_docx_body,
    "odt.body": check_odt_body, "html.extract": check_html_body, "odf.element_text": check_odf_text,
    "ods.sheet": check_ods_sheet, "xlsx.format": check_xlsx_format, "xls.format": check_xls_format,
    "dt.slides": check_dt_slides, "odp.slide": check_odp_slide, "html.source": check_html_source, "rtf.source": check_rtf_source, "pptx.shapes": check_pptx_shape_tree, "plain.decode": check_plain_decode, "epub.tables": check_epub_tables, "odp.tables": check_odp_tables, "epub.source": check_epub_source, "odg.text": check_odg_text, "pptx.paragraphs": check_pptx_paragraphs,
    "rtf.unicode": check_rtf_unicode, "rtf.skip": check_rtf_skip, "dt.units": check_dt_units,
}


def run_checks(names=None):
    out = {}
    for k, fn in CHECKS.items():
        if names and k not in names:
            continue
        try:
            out[k] = fn().cases
        except Unresolved as e:
            out[k] = {"<unresolved>": {"checked": 0, "failures": 0, "witness": None, "error": f"function not found: {e}"}}
        except Exception as e:  # noqa
            import traceback
            out[k] = {"<error>": {"checked": 0, "failures": 0, "witness": None, "error": traceback.format_exc()[-1500:]}}
    return out


# ============================================================================================
# find / rerun
# ============================================================================================
# html constructs without a recorded finding (a failure there is a new defect of the node walk)
HTML_SOUND_CASES = ["p", "inline", "spans", "p-br", "list", "nested-list", "list-item-tails", "hr", "table", "table-sections", "table-tail", "dl", "pre", "empty-leaves", "empty-blocks", "combinations"]

FUNC_OF_CHECK = {
    "docx.table": "docx_extractor.py::_extract_table_text", "odt.body": "odt_extractor.py::_extract_full_text",
    "html.extract": "html_extractor.py::_HtmlTextExtractor.extract", "ods.sheet": "ods_extractor.py::_extract_sheet",
    "xlsx.format": "xlsx_extractor.py::_format_sheet_as_text", "xls.format": "xls_extractor.py::_format_sheet_as_text",
    "odf.element_text": "_shared.py::element_text",
    "odg.text": "odg_extractor.py::_extract_full_text", "pptx.paragraphs": "pptx_extractor.py::_extract_text_from_paragraphs",
    "odp.slide": "odp_extractor.py::_extract_slide", "html.source": "html_extractor.py::read_html",
    "rtf.source": "rtf_extractor.py::read_rtf", "pptx.shapes": "pptx_extractor.py::read_pptx", "plain.decode": "plain_extractor.py::read_plain_text", "epub.tables": "epub_extractor.py::read_epub.iterate_tables", "odp.tables": "odp_extractor.py::read_odp.iterate_tables", "epub.source": "epub_extractor.py::read_epub",
    "rtf.unicode": "rtf_extractor.py::_decode_unicode_run", "rtf.skip": "rtf_extractor.py::_RtfParser._is_skip_destination", "dt.units": "data_types.py::_join_unit_text",
}

# obligation id fragment -> (check, cases, kinds)
WITNESS_MAP = [
    ("_process_text_element/inv-preserve#run-children.sq[tab-break]", "docx.paragraph", ["tab-break"], None),
    ("_process_text_element/inv-preserve#run-children.nw[other-child]", "docx.paragraph", ["vml-textbox"], ["lost"]),
    ("_process_text_element/inv-preserve#run-children.sq[other-child]", "docx.paragraph", ["vml-textbox"], None),
    ("[tracked-move-source]", "docx.paragraph", ["tracked-move"], None),
    ("[nested-paragraph]", "docx.paragraph", ["textbox-paragraphs"], None),
    ("_process_text_element/", "docx.paragraph", ["plain"], None),
    ("_extract_paragraph_content/", "docx.paragraph", ["plain", "tracked-move"], None),
    ("_extract_full_text_from_body/inv-preserve#blocks.nw[content-control]", "docx.body", ["content-control"], None),
    ("_extract_full_text_from_body/inv-preserve#blocks.sq[content-control]", "docx.body", ["content-control"], None),
    ("_extract_full_text_from_body/", "docx.body", ["plain", "content-control"], None),
    ("_shared.py::", "odf.element_text", None, None),
    ("_HtmlTreeBuilder.", "html.source", None, None),
    ("_XhtmlTextExtractor.handle_endtag/ensures#buffered-chunks", "epub.tables", None, None),
    ("_XhtmlTextExtractor.handle_endtag/ensures#closed-cell", "epub.tables", None, None),
    ("_XhtmlTextExtractor._normalize_ws/", "epub.tables", None, None),
    ("_XhtmlTextExtractor.", "epub.source", None, None),
    ("_extract_sheet/block#", "ods.sheet", None, None),
    ("plain_extractor.py::", "plain.decode", None, None),
    ("_strip_rtf_full_with_pages/step", "rtf.source", None, None),
    ("_is_skip_destination/", "rtf.skip", None, None),
    ("data_types.py::_join_unit_text/", "dt.units", None, None),
    ("pptx_extractor.py::_extract_text_from_paragraphs/", "pptx.paragraphs", None, None),
    ("docx_extractor.py::_extract_table_text/", "docx.table", None, None),
    ("_decode_unicode_run/", "rtf.unicode", None, None),
    ("_append_full_text_from_element/policy#", "odt.body", None, None),
    ("_extract_slide/block#slide-text", "odp.slide", None, None),
    ("_extract_slide/block#speaker-notes", "odp.slide", None, ["leaked"]),
    ("xls_extractor.py::_format_sheet_as_text/", "xls.format", None, None),
    ("PptSlideContent.text_combined", "dt.slides", ["PptSlideContent"], None),
    ("OdpSlide.text_combined", "dt.slides", ["OdpSlide"], None),
    ("PptxSlide.get_text", "dt.slides", ["PptxSlide"], None),
    ("_HtmlTextExtractor._get_node_text", "html.extract", HTML_SOUND_CASES, None),
    ("_HtmlTextExtractor._process_node", "html.extract", HTML_SOUND_CASES, None),
]


def _recorded_cases(check, oid):
    """Cases of `check` that are the witness of a recorded (still open) finding of this property -- unless the finding covers
    the obligation asked for."""
    out = set()
    try:
        with open(os.path.join(os.path.dirname(os.path.dirname(os.path.abspath(__file__))), "known_findings.json")) as fh:
            kf = json.load(fh)
        fn = FUNC_OF_CHECK.get(check)
        for f in kf.get("findings", []) if isinstance(kf, dict) else []:
            if f.get("property") != "C02":
                continue
            ids = f.get("covers", [f.get("obligation", "")])
            if oid in ids:
                continue
            w = f.get("witness") or {}
            if w.get("check") == check and w.get("case"):
                out.add(w["case"])
            for i in ids:
                m = re.search(r"C02/(.+)/bounded#tokens\[(.+)\]$", i or "")
                if m and fn and m.group(1) == fn:
                    out.add(m.group(2))
    except Exception:  # noqa
        return set()
    return out


def find(req):
    oid = req.get("obligation", "")
    if req.get("known_finding"):
        return replay_finding(req)
    m = re.search(r"api::(\w+)\.get_full_text/document#tokens\[(.+)\]$", oid)
    if m:
        from replay import c02_docs
        rec = c02_docs.run_documents([m.group(1)]).get(m.group(1), {}).get(m.group(2))
        if rec and rec.get("ok") is False:
            return dict(rec, reproduced=True, search="document generator replay/c02_docs.py, feature " + m.group(2))
        return {"reproduced": False, "note": f"document {m.group(1)}[{m.group(2)}] passes"}
    m = re.search(r"C02/(.+)/bounded#tokens\[(.+)\]$", oid)
    if m:
        check = next((k for k, v in FUNC_OF_CHECK.items() if v == m.group(1)), None)
        if check is None:
            return {"reproduced": False, "note": "no check for " + m.group(1)}
        c = CHECKS[check]().cases.get(m.group(2))
        if c and c["witness"] is not None:
            return dict(c["witness"], reproduced=True, search=f"{check}[{m.group(2)}]: {c['failures']} of {c['checked']} inputs fail")
        return {"reproduced": False, "note": f"{check}[{m.group(2)}]: no failing input"}
    if "read_xls/block#" in oid:
        from replay import c02_docs
        for feat, rec in c02_docs.run_documents(["xls"]).get("xls", {}).items():
            if rec.get("ok") is False:
                return dict(rec, reproduced=True, search="xls workbook features (replay/c02_docs.py), feature " + feat)
        return {"reproduced": False, "note": "no failing xls workbook feature"}
    if "_process_slide_from_context/block#" in oid:
        from replay import c02_docs
        for feat, rec in c02_docs.run_documents(["pptx"]).get("pptx", {}).items():
            if rec.get("ok") is False:
                return dict(rec, reproduced=True, search="pptx deck features (replay/c02_docs.py), feature " + feat)
        return {"reproduced": False, "note": "no failing pptx deck feature"}
    for frag, check, cases, kinds in WITNESS_MAP:
        if frag in oid:
            r = CHECKS[check]()
            if cases is None:           # a recorded finding's own cases are not a failing input of some OTHER obligation
                rec = _recorded_cases(check, oid)
                if rec:
                    cases = [c for c in r.cases if c not in rec]
            w = r.first_failure(cases, kinds)
            if w is not None:
                return dict(w, reproduced=True, search=f"{check} (all trees of the small grammar in replay/c02_trees.py)")
            return {"reproduced": False, "note": f"no failing input in small scope {check} cases={cases}"}
    return {"reproduced": False, "note": "no native search registered for this obligation"}


def rerun(stored):
    req = {"obligation": stored.get("obligation", ""), "witness": stored}
    return find(req)


def replay_finding(req):
    """Known finding: re-run its recorded witness (check + case) on the real code."""
    w = req.get("witness") or {}
    check, case = w.get("check"), w.get("case")
    if check in CHECKS:
        r = CHECKS[check]()
        c = r.cases.get(case)
        if c and c["witness"] is not None:
            return dict(c["witness"], reproduced=True)
        return {"reproduced": False, "note": f"{check}[{case}]: no failing input any more"}
    return {"reproduced": False, "note": "unknown witness kind"}


def validate_model():
    """Bounded validation of the assumed ElementTree model (contracts/etree_model.py) against xml.etree:
    the model's functions, computed on the abstract tree, agree with the real API on every tree of the
    small grammar (<= 3 levels, <= 3 children, tags a/b, optional text/tail/attribute)."""
    import itertools
    tags = ["a", "b"]
    leaves = [N(t, text=tx, tail=tl, **at) for t in tags for tx in (None, "x") for tl in (None, "y") for at in ({}, {"k": "v"})]
    level1 = [N(t, *kids) for t in tags for n in (0, 1, 2) for kids in itertools.product(leaves[:6], repeat=n)]
    trees = level1 + [N(t, *kids, text="r") for t in tags for kids in itertools.product(level1[:14], repeat=2)]
    bad = []
    for t in trees:
        e = to_et(t)
        for node, el in zip(t.walk(), e.iter()):
            pre = [x for x in node.walk()]
            checks = [
                (node.tag, el.tag), (node.text, el.text), (node.tail, el.tail), (len(node.children), len(el)),
                ([c.tag for c in node.children], [c.tag for c in el]),
                (node.attrib.get("k", "d"), el.get("k", "d")),
                (bool(node.children), bool(len(el))),
            ]
            for tg in tags:
                first = next((c for c in node.children if c.tag == tg), None)
                f = el.find(tg)
                checks.append((None if first is None else node.children.index(first), None if f is None else list(el).index(f)))
                checks.append(([id(x) for x in pre if x.tag == tg].__len__(), len(list(el.iter(tg)))))
                checks.append(([c.tag for c in node.children if c.tag == tg], [c.tag for c in el.findall(tg)]))
                checks.append(([x.text for x in pre if x.tag == tg], [x.text for x in el.iter(tg)]))
            for a, b in checks:
                if a != b:
                    bad.append((t.brief(), a, b))
    return {"trees": len(trees), "mismatches": bad[:5]}


def main(argv):
    if len(argv) >= 2 and argv[1] == "bounded":
        names = [a for a in argv[2:] if not a.startswith("--")]
        out = run_checks(names or None)
        if not names:
            from replay import c02_docs
            out["documents"] = c02_docs.run_documents()
            out["model"] = validate_model()
        print(json.dumps(out, default=repr))
    elif len(argv) >= 2 and argv[1] == "docs":
        from replay import c02_docs
        print(json.dumps(c02_docs.run_documents(argv[2:] or None), default=repr, indent=1))
    elif len(argv) >= 2 and argv[1] == "validate-model":
        print(json.dumps(validate_model(), default=repr))
    elif len(argv) >= 3 and argv[1] == "find":
        print(json.dumps(find({"obligation": argv[2]}), default=repr, indent=1))
    else:
        print(__doc__)


if __name__ == "__main__":
    main(sys.argv)
