"""Native replay for C08 (real code under /venv/bin/python, no z3).

Encrypted / unencrypted pairs built in memory where feasible (ZIP flag bit per member, ODF manifests, BIFF record
chains fed to is_xls_encrypted, 7z coder chains, EPUB encryption.xml / rights.xml, pypdf-encrypted PDFs) plus the
protected fixtures of the repository: encrypted => ExtractionFileEncryptedError before any result (direct extractor
and read_file); unencrypted => never ExtractionFileEncryptedError.  The recorded known findings are replayed by id.
"""
import glob
import io
import os
import random
import struct
import tempfile
import types
import zipfile
import zlib

REPO = os.environ.get("VERIF_REPO", "/repo")
RES = os.path.join(REPO, "sharepoint2text/tests/resources")
EXPECT = "encrypted input => ExtractionFileEncryptedError before any result; unencrypted input never rejected as encrypted"


def _enc_err():
    from sharepoint2text.parsing.exceptions import ExtractionFileEncryptedError
    return ExtractionFileEncryptedError


def run(extractor, data, path):
    """-> (verdict, n_results_before, exception repr); verdict in ok / encrypted / other:<Type>."""
    n = 0
    try:
        for _r in extractor(io.BytesIO(data), path):
            n += 1
        return "ok", n, ""
    except _enc_err() as e:
        return "encrypted", n, repr(e.__cause__) if e.__cause__ is not None else ""
    except Exception as e:  # noqa
        return "other:" + type(e).__name__, n, str(e)[:120]


def run_read_file(data, name):
    import sharepoint2text
    with tempfile.TemporaryDirectory() as d:
        p = os.path.join(d, name)
        with open(p, "wb") as fh:
            fh.write(data)
        n = 0
        try:
            for _r in sharepoint2text.read_file(p):
                n += 1
            return "ok", n, ""
        except _enc_err():
            return "encrypted", n, ""
        except Exception as e:  # noqa
            return "other:" + type(e).__name__, n, str(e)[:120]


def extractor_for(name):
    from sharepoint2text.parsing.router import get_extractor
    return get_extractor(name)


# ------------------------------------------------------------------ builders --
def zip_bytes(members):
    """members: [(name, data, flags, method_override or None[, declared_size])] ; patched into local + central headers."""
    buf = io.BytesIO()
    with zipfile.ZipFile(buf, "w", zipfile.ZIP_STORED) as z:
        for name, data, *_rest in members:
            z.writestr(name, data)
    raw = bytearray(buf.getvalue())
    pos, idx = 0, 0
    while True:
        p = raw.find(b"PK\x01\x02", pos)
        if p < 0:
            break
        lho = struct.unpack_from("<I", raw, p + 42)[0]
        _n, _d, flags, method = members[idx][:4]
        if len(members[idx]) > 4 and members[idx][4] is not None:      # declared uncompressed size (central + local header)
            struct.pack_into("<I", raw, p + 24, members[idx][4])
            struct.pack_into("<I", raw, lho + 22, members[idx][4])
        if flags:
            struct.pack_into("<H", raw, p + 8, struct.unpack_from("<H", raw, p + 8)[0] | flags)
            struct.pack_into("<H", raw, lho + 6, struct.unpack_from("<H", raw, lho + 6)[0] | flags)
        if method is not None:
            struct.pack_into("<H", raw, p + 10, method)
            struct.pack_into("<H", raw, lho + 8, method)
        idx += 1
        pos = p + 4
    return bytes(raw)


def rebuild_zip(src_bytes, edit=None, extra=()):
    zin = zipfile.ZipFile(io.BytesIO(src_bytes))
    buf = io.BytesIO()
    with zipfile.ZipFile(buf, "w", zipfile.ZIP_DEFLATED) as z:
        for info in zin.infolist():
            data = zin.read(info)
            if edit is not None:
                data = edit(info.filename, data)
            if data is not None:
                z.writestr(info, data)
        for name, data in extra:
            z.writestr(name, data)
    return buf.getvalue()


def manifest_edit(fn):
    return lambda name, data: fn(data.decode("utf-8")).encode("utf-8") if name == "META-INF/manifest.xml" else data


ENC_DATA = ('<manifest:encryption-data manifest:checksum-type="urn:oasis:names:tc:opendocument:xmlns:manifest:1.0#sha256-1k" '
            'manifest:checksum="x"><manifest:algorithm manifest:algorithm-name="http://www.w3.org/2001/04/xmlenc#aes256-cbc" '
            'manifest:initialisation-vector="x"/></manifest:encryption-data>')


def _inject_enc(s):
    # turn the content.xml file-entry into one that carries an encryption-data child element
    import re
    m = re.search(r'<manifest:file-entry[^>]*manifest:full-path="content.xml"[^>]*/>', s)
    if not m:
        return s.replace("</manifest:manifest>", '<manifest:file-entry manifest:full-path="x.xml" manifest:media-type="text/xml">' + ENC_DATA + "</manifest:file-entry></manifest:manifest>")
    return s[:m.start()] + m.group(0)[:-2] + ">" + ENC_DATA + "</manifest:file-entry>" + s[m.end():]


F18_WITNESSES = {
    "comment": lambda s: s.replace("</manifest:manifest>", "<!-- no encryption-data in this package --></manifest:manifest>"),
    "picture-name": lambda s: s.replace("</manifest:manifest>", '<manifest:file-entry manifest:full-path="Pictures/encryption-data.png" manifest:media-type="image/png"/></manifest:manifest>'),
    "attribute-value": lambda s: s.replace("</manifest:manifest>", '<manifest:file-entry manifest:full-path="notes/manifest:algorithm.txt" manifest:media-type="text/plain"/></manifest:manifest>'),
}


def _redeclare(s, name):
    import re
    body = re.sub(r"^\s*<\?xml[^>]*\?>", "", s, count=1)
    return (f'<?xml version="1.0" encoding="{name}"?>' if name else "") + body


def _reprefix(s):
    import re
    return re.sub(r"(?<=[<\s/])manifest:(?=[A-Za-z-]+[\s=/>])", "m:", s).replace("xmlns:manifest=", "xmlns:m=")


MANIFEST_ENCODINGS = [
    ("UTF-16 LE with BOM, declared", lambda s: b"\xff\xfe" + _redeclare(s, "UTF-16").encode("utf-16-le")),
    ("UTF-16 BE with BOM, declared", lambda s: b"\xfe\xff" + _redeclare(s, "UTF-16").encode("utf-16-be")),
    ("UTF-16 LE with BOM, no XML declaration", lambda s: b"\xff\xfe" + _redeclare(s, None).encode("utf-16-le")),
    ("UTF-8 with BOM", lambda s: b"\xef\xbb\xbf" + _redeclare(s, "UTF-8").encode("utf-8")),
    ("ISO-8859-1, declared", lambda s: _redeclare(s, "ISO-8859-1").encode("latin-1", "xmlcharrefreplace")),
    ("UTF-8, namespace prefix m: instead of manifest:", lambda s: _reprefix(s).encode("utf-8")),
    ("UTF-8, no XML declaration", lambda s: _redeclare(s, None).encode("utf-8")),
]


def manifest_has_encryption_element(data):
    """Ground truth of the spec predicate: parse the manifest, look for an element named encryption-data."""
    import xml.etree.ElementTree as ET
    try:
        m = zipfile.ZipFile(io.BytesIO(data)).read("META-INF/manifest.xml")
    except KeyError:
        return False
    root = ET.fromstring(m)
    return any(el.tag.rsplit("}", 1)[-1] == "encryption-data" for el in root.iter())


AES7 = b"\x06\xf1\x07\x01"


def sevenz(packed, header):
    start = struct.pack("<QQI", len(packed), len(header), zlib.crc32(header) & 0xFFFFFFFF)
    return b"7z\xbc\xaf\x27\x1c" + b"\x00\x04" + struct.pack("<I", zlib.crc32(start) & 0xFFFFFFFF) + start + packed + header


def _folder(coders):
    out = bytes([len(coders)])
    for cid, props in coders:
        out += bytes([len(cid) | (0x20 if props is not None else 0)]) + cid
        if props is not None:
            out += bytes([len(props)]) + props
    for i in range(len(coders) - 1):
        out += bytes([i + 1, i])
    return out


def _streams(pack_size, coders, unpack_sizes):
    return (b"\x06\x00\x01\x09" + bytes([pack_size]) + b"\x00" + b"\x07\x0b\x01\x00" + _folder(coders) + b"\x0c" + bytes(unpack_sizes) + b"\x00")


def _files(name):
    body = b"\x00" + name.encode("utf-16-le") + b"\x00\x00"
    return b"\x05\x01\x11" + bytes([len(body)]) + body + b"\x00"


def sevenz_variants():
    props = b"\x13\x00\x00"
    plain = sevenz(b"hello world", b"\x01\x04" + _streams(11, [(b"\x00", None)], [11]) + b"\x00" + _files("a.txt") + b"\x00")
    content_aes = sevenz(bytes(range(16)), b"\x01\x04" + _streams(16, [(AES7, props)], [11]) + b"\x00" + _files("a.txt") + b"\x00")
    chain_aes = sevenz(bytes(range(16)), b"\x01\x04" + _streams(16, [(b"\x21", b"\x18"), (AES7, props)], [11, 16]) + b"\x00" + _files("a.txt") + b"\x00")
    header_aes = sevenz(bytes(range(16)), b"\x17" + _streams(16, [(AES7, props)], [16]) + b"\x00")
    header_aes_copy = sevenz(bytes(range(16)), b"\x17" + _streams(16, [(AES7, props), (b"\x00", None)], [16, 16]) + b"\x00")
    header_copy_aes = sevenz(bytes(range(16)), b"\x17" + _streams(16, [(b"\x00", None), (AES7, props)], [16, 16]) + b"\x00")
    return {"plain": plain, "content-aes": content_aes, "lzma2+aes": chain_aes, "header-aes": header_aes,
            "header-aes+copy": header_aes_copy, "header-copy+aes": header_copy_aes}


def sevenz_two_folders(second_coders):
    """Two folders / two files: the first folder is plain (copy), the second has the given coder chain."""
    props = b"\x13\x00\x00"
    coders2 = [(c, props if c == AES7 else None) for c in second_coders]
    packed = b"hello world" + bytes(range(16))
    streams = (b"\x06\x00\x02\x09" + bytes([11, 16]) + b"\x00" + b"\x07\x0b\x02\x00" + _folder([(b"\x00", None)]) + _folder(coders2)
               + b"\x0c" + bytes([11] + [16] * len(coders2)) + b"\x00")
    names = b"\x00" + "a.txt".encode("utf-16-le") + b"\x00\x00" + "b.txt".encode("utf-16-le") + b"\x00\x00"
    files = b"\x05\x02\x11" + bytes([len(names)]) + names + b"\x00"
    return sevenz(packed, b"\x01\x04" + streams + b"\x00" + files + b"\x00")


def big_manifest(s, encrypted):
    """Manifest larger than 64 KiB (many picture entries), the encryption-data element placed after them."""
    filler = "".join(f'<manifest:file-entry manifest:full-path="Pictures/p{i:05d}.png" manifest:media-type="image/png"/>' for i in range(900))
    s = s.replace("</manifest:manifest>", filler + "</manifest:manifest>")
    if encrypted:
        s = s.replace("</manifest:manifest>", '<manifest:file-entry manifest:full-path="late.xml" manifest:media-type="text/xml">' + ENC_DATA + "</manifest:file-entry></manifest:manifest>")
    return s


def doc_fib_variants():
    """Copies of a plain .doc fixture with the FIB patched in place: wIdent (0xA5EC Word 97 / 0xA5DC Word 6/95) and
    fEncrypted (bit 0x0100 of the word at 0x0A).  -> [(label, bytes, expected verdict)]"""
    import olefile
    for p in sorted(glob.glob(os.path.join(RES, "**/*.doc"), recursive=True)):
        if "password" in p:
            continue
        raw = open(p, "rb").read()
        if not olefile.isOleFile(io.BytesIO(raw)):
            continue
        with olefile.OleFileIO(io.BytesIO(raw)) as ole:
            if not ole.exists("WordDocument"):
                continue
            head = ole.openstream("WordDocument").read()[:64]
        at = raw.find(head)
        if at < 0 or raw.find(head, at + 1) >= 0 or head[:2] != b"\xec\xa5":
            continue
        out = []
        for ident, iname in ((0xA5EC, "Word97"), (0xA5DC, "Word6/95")):
            for flag in (False, True):
                b = bytearray(raw)
                struct.pack_into("<H", b, at, ident)
                fl = struct.unpack_from("<H", b, at + 0x0A)[0]
                struct.pack_into("<H", b, at + 0x0A, (fl | 0x0100) if flag else (fl & ~0x0100))
                out.append((f"{os.path.basename(p)}: wIdent={iname}, fEncrypted={int(flag)}", bytes(b), "encrypted" if flag else "not-encrypted"))
        return out
    return []


def enc_xml(algos):
    """algos: list of algorithm URIs; None = an EncryptedData entry without any EncryptionMethod child"""
    items = "".join('<enc:EncryptedData>' + (f'<enc:EncryptionMethod Algorithm="{a}"/>' if a is not None else '') +
                    f'<enc:CipherData><enc:CipherReference URI="OEBPS/f{i}"/></enc:CipherData></enc:EncryptedData>' for i, a in enumerate(algos))
    return ('<?xml version="1.0"?><encryption xmlns="urn:oasis:names:tc:opendocument:xmlns:container" '
            'xmlns:enc="http://www.w3.org/2001/04/xmlenc#">' + items + "</encryption>").encode()


def ole_bytes(entries):
    """Minimal OLE2 / CFB v3 writer (512-byte sectors, no mini stream: stream data is zero-padded to the 4096-byte cutoff).
    entries: [(name, data-bytes | None for a storage | [(child name, bytes), ...] for a storage with streams)]."""
    FREE, EOC, FATSECT, NOSTREAM = 0xFFFFFFFF, 0xFFFFFFFE, 0xFFFFFFFD, 0xFFFFFFFF
    flat = []      # [name, type, child list | None, data]

    def add(items, parent):
        ids = []
        for name, payload in sorted(items, key=lambda e: (len(e[0]), e[0].upper())):
            idx = len(flat)
            if isinstance(payload, (bytes, bytearray)):
                flat.append([name, 2, None, bytes(payload)])
            else:
                flat.append([name, 1, [], b""])
                flat[idx][2] = add(payload or [], idx)
            ids.append(idx)
        return ids
    flat.append(["Root Entry", 5, None, b""])
    flat[0][2] = add(entries, 0)
    n_dir = (len(flat) + 3) // 4
    streams, sect = {}, 1 + n_dir          # sector 0 = FAT, then directory sectors, then stream data
    for i, e in enumerate(flat):
        if e[1] == 2:
            data = e[3] + b"\0" * max(0, 4096 - len(e[3]))
            data += b"\0" * (-len(data) % 512)
            streams[i] = (sect, len(data), data)
            sect += len(data) // 512
    assert sect <= 128, "one FAT sector only"
    fat = [FREE] * 128
    fat[0] = FATSECT
    for k in range(n_dir):
        fat[1 + k] = 2 + k if k + 1 < n_dir else EOC
    for i, (start, size, _d) in streams.items():
        for k in range(size // 512):
            fat[start + k] = start + k + 1 if k + 1 < size // 512 else EOC
    sib = {}
    for e in flat:
        kids = e[2] or []
        for a, b in zip(kids, kids[1:]):
            sib[a] = b                      # a right-leaning chain, in CFB name order
    dirbytes = b""
    for i, (name, typ, kids, data) in enumerate(flat):
        nm = name.encode("utf-16-le") + b"\0\0"
        start, size = (streams[i][0], max(len(data), 4096)) if typ == 2 else ((EOC, 0))
        dirbytes += (nm.ljust(64, b"\0") + struct.pack("<HBB", len(nm), typ, 1) + struct.pack("<III", NOSTREAM, sib.get(i, NOSTREAM), kids[0] if kids else NOSTREAM)
                     + b"\0" * 16 + struct.pack("<I", 0) + b"\0" * 16 + struct.pack("<II", start, size) + b"\0" * 4)
    dirbytes += (b"\0" * 64 + struct.pack("<HBB", 0, 0, 0) + struct.pack("<III", NOSTREAM, NOSTREAM, NOSTREAM) + b"\0" * 48) * (n_dir * 4 - len(flat))
    header = (b"\xd0\xcf\x11\xe0\xa1\xb1\x1a\xe1" + b"\0" * 16 + struct.pack("<HHHHH", 0x3E, 3, 0xFFFE, 9, 6) + b"\0" * 6
              + struct.pack("<IIIIIIIII", 0, 1, 1, 0, 4096, EOC, 0, EOC, 0) + struct.pack("<I", 0) + struct.pack("<I", FREE) * 108)
    body = struct.pack("<128I", *fat) + dirbytes + b"".join(streams[i][2] for i in sorted(streams))
    return header + body


def ole_marker_variants():
    """[(label, extension, container bytes, expected verdict)]: compound files that carry / do not carry an Office encryption
    marker -- as a stream or as a storage, in any spelling (CFB names compare case-insensitively)."""
    out = []
    filler = [("Some", b"unrelated stream")]
    for ext in ("docx", "xlsx", "pptx", "ppt"):
        out.append((f"no marker (.{ext})", ext, ole_bytes(filler + [("PowerPoint Document", b"\0" * 64)]), "not-encrypted"))
        markers = ["EncryptionInfo", "EncryptedPackage", "DataSpaces"] + (["EncryptedSummary", "EncryptedSummaryInformation"] if ext == "ppt" else [])
        for mk in markers:
            for spelled in (mk, mk.upper(), mk.lower()):
                out.append((f"stream {spelled!r} (.{ext})", ext, ole_bytes(filler + [(spelled, b"x" * 40)]), "encrypted"))
            out.append((f"storage {mk!r} (.{ext})", ext, ole_bytes(filler + [(mk, [("Version", b"v" * 8)])]), "encrypted"))
            if ext == "ppt":     # a binary presentation with its usual streams around the marker (CurrentUserAtom with the plain header token)
                cu = struct.pack("<HHII", 0, 0x0FF6, 0x20, 0x14) + struct.pack("<I", 0xE391C05F) + b"\0" * 16
                usual = [("Current User", cu), ("PowerPoint Document", b"\0" * 64), ("\x05SummaryInformation", b"\0" * 48)]
                out.append((f"stream {mk!r} next to Current User / PowerPoint Document (.ppt)", ext, ole_bytes(usual + [(mk, b"x" * 40)]), "encrypted"))
    for stream, spelled in (("Workbook", "Workbook"), ("Workbook", "WORKBOOK"), ("Book", "Book"), ("Book", "book")):
        for enc in (False, True):
            recs = [(0x0809, b"\0" * 16)] + ([(0x0086, b""), (0x002F, b"\0" * 6)] if enc else [(0x0042, b"\xe4\x04")]) + [(0x000A, b"")]
            out.append((f"xls: {spelled} stream, FILEPASS={enc}", "xls", ole_bytes([(spelled, biff(recs))]), "encrypted" if enc else "not-encrypted"))
    return out


def biff(records, tail=b""):
    return b"".join(struct.pack("<HH", rid, len(p)) + p for rid, p in records) + tail


def spec_filepass(data):
    """Independent statement of the spec: a record with id 0x002F on the chain from offset 0."""
    o = 0
    while o + 4 <= len(data):
        rid, ln = struct.unpack_from("<HH", data, o)
        if rid == 0x002F:
            return True
        o += 4 + ln
    return False


class FakeOle:
    def __init__(self, streams):
        self.streams = streams

    def __enter__(self):
        return self

    def __exit__(self, *a):
        return False

    def exists(self, name):
        return name in self.streams

    def openstream(self, name):
        return io.BytesIO(self.streams[name])

    def close(self):
        pass


def xls_detector_on(streams):
    """Real is_xls_encrypted with olefile replaced by a container view holding `streams` (no OLE writer needed).  The view is
    installed where the detector module looks the library up, whatever its import style: the attributes of the `olefile`
    module itself (`import olefile [as x]`, also inside a function) and every global of the detector module that is bound to
    `olefile.OleFileIO` / `olefile.isOleFile` (`from olefile import ...`)."""
    import olefile
    from sharepoint2text.parsing.extractors.util import encryption as E
    fakes = {id(olefile.OleFileIO): (lambda f, *a, **k: FakeOle(streams)), id(olefile.isOleFile): (lambda f, *a, **k: True)}
    real_mod = {"OleFileIO": olefile.OleFileIO, "isOleFile": olefile.isOleFile}
    rebound = {name: val for name, val in vars(E).items() if id(val) in fakes and val in (olefile.OleFileIO, olefile.isOleFile)}
    for name, val in rebound.items():
        setattr(E, name, fakes[id(val)])
    olefile.OleFileIO, olefile.isOleFile = fakes[id(real_mod["OleFileIO"])], fakes[id(real_mod["isOleFile"])]
    try:
        return E.is_xls_encrypted(io.BytesIO(b"\xd0\xcf\x11\xe0"))
    finally:
        olefile.OleFileIO, olefile.isOleFile = real_mod["OleFileIO"], real_mod["isOleFile"]
        for name, val in rebound.items():
            setattr(E, name, val)


# ------------------------------------------------------------ known findings --
def finding(fid):
    src = open(os.path.join(RES, "open_office/sample_document.odt"), "rb").read()
    if fid == "F18-odf-substring":
        from sharepoint2text.parsing.extractors.open_office.odt_extractor import read_odt
        hits = []
        for name, edit in F18_WITNESSES.items():
            data = rebuild_zip(src, manifest_edit(edit), extra=[("Pictures/encryption-data.png", b"\x89PNG\r\n\x1a\n")] if name == "picture-name" else ())
            v, n, _ = run(read_odt, data, "a.odt")
            if v == "encrypted" and not manifest_has_encryption_element(data):
                hits.append(name)
        return bool(hits), {"base": "open_office/sample_document.odt", "manifest_edits": sorted(F18_WITNESSES)}, \
            f"unencrypted ODT (manifest has no encryption-data element) rejected as encrypted for: {hits}"
    if fid == "F25-zip-runtimeerror-as-encrypted":
        from sharepoint2text.parsing.extractors.archive_extractor import read_archive
        data = zip_bytes([("a.txt", b"first member", 0, None), ("b.txt", b"second member", 0, 9)])
        v, n, cause = run(read_archive, data, "x.zip")
        return v == "encrypted", {"zip": "two stored members, no flag bit 0 anywhere; compression method of the second patched to 9 (Deflate64)"}, \
            f"verdict={v} after {n} result(s); cause={cause}"
    if fid == "F26-7z-encrypted-header":
        from sharepoint2text.parsing.extractors.archive_extractor import read_archive
        v, n, msg = run(read_archive, sevenz_variants()["header-aes"], "x.7z")
        return v != "encrypted", {"7z": "EncodedHeader whose folder has the single coder 06 F1 07 01 (AES), i.e. `7z a -mhe=on -p`"}, f"verdict={v} {msg}"
    if fid == "F27-epub-font-obfuscation":
        from sharepoint2text.parsing.extractors.epub_extractor import read_epub
        ep = sorted(glob.glob(os.path.join(RES, "**/*.epub"), recursive=True))[0]
        data = rebuild_zip(open(ep, "rb").read(), extra=[("META-INF/encryption.xml", enc_xml(["http://www.idpf.org/2008/embedding"]))])
        v, n, _ = run(read_epub, data, "a.epub")
        base_v, base_n, _ = run(read_epub, open(ep, "rb").read(), "a.epub")
        return v == "encrypted" and base_v == "ok", {"epub": os.path.relpath(ep, REPO), "added": "META-INF/encryption.xml with one EncryptedData, Algorithm=http://www.idpf.org/2008/embedding (font obfuscation)"}, \
            f"verdict={v} (same book without encryption.xml: {base_v}, {base_n} result)"
    if fid == "F28-pdf-aes128-empty-password":
        r = pdf_pairs(only=("AES-128|",))
        return r is not None, {"pdf": "smallest plain PDF fixture re-written by pypdf with algorithm AES-128, user password '' (fresh process: no AES provider patched in)"}, \
            (r or {}).get("observed", "extracts like the original")
    return False, {}, "unknown finding"


OBLIGATION_TO_FINDING = {
    "read_pdf/typestate#aes-provider-ensured": "F28-pdf-aes128-empty-password",
    "is_odf_encrypted/ensures#true-only-if": "F18-odf-substring",
    "_extract_from_zip_optimized/exc-ensures#encrypted-error-only-if": "F25-zip-runtimeerror-as-encrypted",
    "_extract_from_7z_optimized/exc-ensures#aes-coded-header": "F26-7z-encrypted-header",
    "_is_epub_encrypted/ensures#true-only-if": "F27-epub-font-obfuscation",
}


# -------------------------------------------------------------------- sweeps --
def fail(target, inputs, expected, observed):
    return {"reproduced": True, "target": target, "inputs": inputs, "expected": expected, "observed": observed}


def sweep():
    """Returns a failure record for the first deviation outside the recorded findings, else None."""
    from sharepoint2text.parsing.extractors.archive_extractor import read_archive
    rnd = random.Random(int(os.environ.get("VERIF_SEED", "0") or 0))
    # 1. protected fixtures: direct extractor and read_file
    prot = sorted(glob.glob(os.path.join(RES, "**/password_protected*/*"), recursive=True))
    if len(prot) < 10:
        return fail("fixtures", {"found": len(prot)}, ">= 10 protected fixtures", "missing fixtures")
    for p in prot:
        data = open(p, "rb").read()
        name = os.path.basename(p)
        for how, res in (("extractor", run(extractor_for(name), data, name)), ("read_file", run_read_file(data, name))):
            if res[0] != "encrypted" or res[1] != 0:
                return fail(f"{how}:{name}", {"fixture": os.path.relpath(p, REPO)}, "ExtractionFileEncryptedError, 0 results before", str(res))
    # 1b. OLE directory names are case-insensitive (olefile.exists, [MS-CFB]): the same protected packages with the
    #     encryption stream names re-cased in place must still be rejected
    for p in prot:
        name = os.path.basename(p)
        if not name.lower().endswith((".docx", ".xlsx", ".pptx")):
            continue
        raw = open(p, "rb").read()
        for a, b in (("EncryptionInfo", "ENCRYPTIONINFO"), ("EncryptedPackage", "encryptedpackage")):
            ua, ub = a.encode("utf-16-le"), b.encode("utf-16-le")
            if raw.count(ua) != 1:
                continue
            data = raw.replace(ua, ub)
            res = run(extractor_for(name), data, name)
            if res[0] != "encrypted" or res[1] != 0:
                return fail("extractor:" + name, {"fixture": os.path.relpath(p, REPO), "directory_entry_renamed": f"{a} -> {b}"},
                            "ExtractionFileEncryptedError, 0 results", str(res))
    # 1c. written compound files: every marker as stream / storage / other spelling; BIFF FILEPASS through the real olefile
    import olefile
    probe = ole_bytes([("Some", b"abc"), ("Dir", [("Inner", b"xyz")])])
    with olefile.OleFileIO(io.BytesIO(probe)) as o_:
        if not (o_.exists("some") and o_.exists("Dir/Inner") and o_.openstream("Some").read()[:3] == b"abc"):
            return fail("builder", {"ole": "writer"}, "olefile reads back the written container", "builder broken")
    for label, ext, data, want in ole_marker_variants():
        for how, res in (("extractor", run(extractor_for("a." + ext), data, "a." + ext)), ("read_file", run_read_file(data, "a." + ext))):
            if (res[0] == "encrypted") != (want == "encrypted") or (want == "encrypted" and res[1] != 0):
                return fail(f"{how}:a.{ext}", {"compound_file": label}, want, str(res))
    # 2. every other fixture of a supported type: never rejected as encrypted
    from sharepoint2text.parsing.router import is_supported_file
    for p in sorted(glob.glob(os.path.join(RES, "**/*"), recursive=True)):
        if not os.path.isfile(p) or "password_protected" in p or not is_supported_file(p):
            continue
        res = run(extractor_for(os.path.basename(p)), open(p, "rb").read(), os.path.basename(p))
        if res[0] == "encrypted":
            return fail("extractor:" + os.path.basename(p), {"fixture": os.path.relpath(p, REPO)}, "not rejected as encrypted", str(res))
    # 3. ZIP: flag bit 0 per member position
    for n in (1, 2, 3, 5):
        names = [f"m{i}.txt" for i in range(n)]
        for flagged in [None] + list(range(n)):
            mem = [(nm, f"text {i}".encode(), 1 if i == flagged else 0, None) for i, nm in enumerate(names)]
            res = run(read_archive, zip_bytes(mem), "x.zip")
            want = "encrypted" if flagged is not None else "ok"
            if res[0] != want or (want == "encrypted" and res[1] != 0):
                return fail("read_archive(zip)", {"members": n, "flagged_index": flagged}, want + " (0 results before)", str(res))
    # a flagged member that is never read (hidden / resource fork / unsupported type / nested archive) still makes the archive encrypted
    for skipped in (".hidden.txt", "__MACOSX/._a.txt", "blob.unsupported-ext", "inner.zip"):
        for order in (0, 1):
            mem = [(skipped, b"secret", 1, None), ("a.txt", b"plain text", 0, None)]
            res = run(read_archive, zip_bytes(mem[::-1] if order else mem), "x.zip")
            if res[0] != "encrypted" or res[1] != 0:
                return fail("read_archive(zip)", {"members": [m_[0] for m_ in (mem[::-1] if order else mem)], "flagged": skipped}, "encrypted (0 results before)", str(res))
    # 3b. the flag decides, whatever the compression method field says: WinZip AES (AE-1/AE-2) members carry method 99 (real
    #     method in the 0x9901 extra field); PKWARE strong encryption / other writers combine the flag with any method id.
    #     An unflagged member with a method zipfile cannot inflate is a failed archive, never an encrypted one.
    for method in (99, 0, 8, 9, 12, 14, 93, 95, 98, 1):
        for pos in (0, 1):
            for flagged in (True, False):
                if not flagged and method in (0, 8, 12, 14):
                    continue                                  # (a stored payload declared as deflate/bzip2/lzma: read errors, not the point)
                mem = [("a.txt", b"plain text", 0, None)]
                mem.insert(pos, ("secret.txt", b"0123456789abcdef" * 3, 1 if flagged else 0, method))
                res = run(read_archive, zip_bytes(mem), "x.zip")
                inp = {"members": [m_[0] for m_ in mem], "member": "secret.txt", "flag_bit_0": flagged, "compression_method_field": method}
                if flagged and (res[0] != "encrypted" or res[1] != 0):
                    return fail("read_archive(zip)", inp, "encrypted (0 results before)", str(res))
                if not flagged and res[0] == "encrypted":
                    return fail("read_archive(zip)", inp, "not rejected as encrypted (no member has flag bit 0)", str(res))
    #     ... and an unflagged member that cannot be inflated in front of a flagged one does not turn the archive into a
    #     merely `failed` one: every flag is looked at before anything is read or given up on
    for method in (9, 99, 93):
        mem = [("first.txt", b"0123456789abcdef" * 3, 0, method), ("secret.txt", b"0123456789abcdef" * 3, 1, None), ("a.txt", b"plain text", 0, None)]
        res = run(read_archive, zip_bytes(mem), "x.zip")
        if res[0] != "encrypted" or res[1] != 0:
            return fail("read_archive(zip)", {"members": [m_[0] for m_ in mem], "flagged": "secret.txt", "first.txt": f"no flag, compression method field {method}"},
                        "encrypted (0 results before)", str(res))
    # 3c. ... and whatever its size fields say (an empty member, a member declared larger than any in-memory limit)
    for label, data_, size in (("empty", b"", None), ("declared 3 GiB", b"0123456789abcdef", 3 << 30), ("declared 4 GiB - 1", b"0123456789abcdef", 0xFFFFFFFF - 1)):
        for pos in (0, 1):
            mem = [("a.txt", b"plain text", 0, None)]
            mem.insert(pos, ("secret.txt", data_, 1, None, size))
            res = run(read_archive, zip_bytes(mem), "x.zip")
            if res[0] != "encrypted" or res[1] != 0:
                return fail("read_archive(zip)", {"members": [m_[0] for m_ in mem], "flagged": "secret.txt", "size_of_flagged_member": label}, "encrypted (0 results before)", str(res))
    res = run(read_archive, zip_bytes([("d/", b"", 1, None), ("d/a.txt", b"plain", 0, None)]), "x.zip")      # flag on a directory entry only
    if res[0] == "encrypted":
        return fail("read_archive(zip)", {"members": "directory entry with flag bit 0, plain file"}, "not encrypted", str(res))
    # 4. BIFF record chains through the real is_xls_encrypted
    for trial in range(400):
        k = rnd.randint(0, 6)
        recs = [(rnd.choice([0x0809, 0x0042, 0x003D, 0x0022, 0x00E1, 0x002E, 0x0030, 0x2F00]), bytes(rnd.getrandbits(8) for _ in range(rnd.choice([0, 1, 2, 4, 7, 20]))))
                for _ in range(k)]
        mode = trial % 4
        if mode == 1 and recs:
            recs[rnd.randrange(len(recs))] = (0x002F, b"\x00" * rnd.choice([0, 2, 6, 54]))           # FILEPASS at a chain position
        elif mode == 2 and recs:
            i = rnd.randrange(len(recs))
            recs[i] = (recs[i][0], b"\x2f\x00\x04\x00" + recs[i][1])                                  # FILEPASS bytes inside a payload only
        tail = bytes(rnd.getrandbits(8) for _ in range(rnd.choice([0, 0, 1, 3]))) if mode != 3 else b"\x2f"   # truncated header at the end
        data = biff(recs, tail)
        for stream in ("Workbook", "Book"):
            got = xls_detector_on({stream: data})
            if got != spec_filepass(data):
                return fail("is_xls_encrypted", {"stream": stream, "bytes_hex": data.hex()}, str(spec_filepass(data)), str(got))
    if xls_detector_on({"Other": biff([(0x002F, b"")])}) is not False:
        return fail("is_xls_encrypted", {"streams": "no Workbook/Book"}, "False", "True")
    if xls_detector_on({"Workbook": biff([(0x0809, b"")]), "Book": biff([(0x002F, b"")])}) is not False:
        return fail("is_xls_encrypted", {"streams": "Workbook plain, Book with FILEPASS"}, "False (Workbook is the workbook stream)", "True")
    # 5. ODF manifests with / without an encryption-data element
    for fx, ext in (("sample_document.odt", "a.odt"), ("sample_spreadsheet.ods", "a.ods"), ("sample_presentation.odp", "a.odp"),
                    ("drawing.odg", "a.odg"), ("formular.odf", "a.odf")):
        src = open(os.path.join(RES, "open_office", fx), "rb").read()
        plain, enc = rebuild_zip(src), rebuild_zip(src, manifest_edit(_inject_enc))
        if not manifest_has_encryption_element(enc) or manifest_has_encryption_element(plain):
            return fail("builder", {"fixture": fx}, "manifest edit adds the element", "builder broken")
        for data, want in ((plain, "ok"), (enc, "encrypted")):
            res = run(extractor_for(ext), data, ext)
            if res[0] != want or (want == "encrypted" and res[1] != 0):
                return fail("extractor:" + ext, {"fixture": fx, "manifest_has_encryption_data": want == "encrypted"}, want, str(res))
        # the manifest is an ordinary XML document: the same two packages with the manifest serialised in another encoding
        # (BOM / encoding declaration; the element is there for the XML parser, whatever the raw bytes look like)
        for enc_name, recode in MANIFEST_ENCODINGS:
            for edit, want in ((lambda m: m, "ok"), (_inject_enc, "encrypted")):
                data = rebuild_zip(src, lambda name, d, e=edit, rc=recode: rc(e(d.decode("utf-8"))) if name == "META-INF/manifest.xml" else d)
                try:
                    truth = manifest_has_encryption_element(data)
                except Exception:  # noqa -- this parser build does not know the encoding: nothing to compare with
                    continue
                if truth != (want == "encrypted"):
                    return fail("builder", {"fixture": fx, "manifest_encoding": enc_name}, "re-encoded manifest keeps its elements", "builder broken")
                res = run(extractor_for(ext), data, ext)
                if (res[0] == "encrypted") != (want == "encrypted") or (want == "encrypted" and res[1] != 0):
                    return fail("extractor:" + ext, {"fixture": fx, "manifest_encoding": enc_name, "manifest_has_encryption_data": want == "encrypted"},
                                want if want == "encrypted" else "not rejected as encrypted", str(res))
        if ext in ("a.odt", "a.ods"):      # manifests larger than 64 KiB (documents with many pictures)
            for encrypted in (False, True):
                data = rebuild_zip(src, manifest_edit(lambda m, e=encrypted: big_manifest(m, e)))
                res = run(extractor_for(ext), data, ext)
                want = "encrypted" if encrypted else "ok"
                if manifest_has_encryption_element(data) != encrypted or res[0] != want or (encrypted and res[1] != 0):
                    return fail("extractor:" + ext, {"fixture": fx, "manifest_bytes": "> 64 KiB (900 extra picture entries)", "encryption_data_element": encrypted}, want, str(res))
    # 5b. DOC: FIB patched in place (wIdent Word 97 / Word 6-95, fEncrypted bit)
    from sharepoint2text.parsing.extractors.ms_legacy.doc_extractor import read_doc
    for label, data, want in doc_fib_variants():
        res = run(read_doc, data, "a.doc")
        if (want == "encrypted") != (res[0] == "encrypted") or (want == "encrypted" and res[1] != 0):
            return fail("read_doc", {"doc": label}, want, str(res))
    # 6. 7z coder chains
    res = run(read_archive, sevenz_two_folders([b"\x00"]), "x.7z")
    if res[0] != "ok":
        return fail("read_archive(7z)", {"folders": "two plain (copy) folders"}, "ok", str(res))
    if not doc_fib_variants():
        return fail("builder", {"doc": "no patchable .doc fixture"}, "4 FIB variants", "none")
    for label, coders in (("second folder AES", [AES7]), ("second folder LZMA2+AES", [b"\x21", AES7])):
        res = run(read_archive, sevenz_two_folders(coders), "x.7z")
        if res[0] != "encrypted" or res[1] != 0:
            return fail("read_archive(7z)", {"folders": "first plain (copy), " + label}, "encrypted, 0 results", str(res))
    for name, data in sevenz_variants().items():
        res = run(read_archive, data, "x.7z")
        want = "ok" if name == "plain" else "encrypted"
        if res[0] != want or (want == "encrypted" and res[1] != 0):
            return fail("read_archive(7z)", {"variant": name}, want, str(res))
    # 6b. e-mail attachments (entry point): a protected attachment surfaces as the file-encrypted error, not skipped
    from sharepoint2text.parsing.extractors.data_types import EmailAddress, EmailAttachment, EmailContent
    for p in prot:
        name = os.path.basename(p)
        mail = EmailContent(from_email=EmailAddress(address="a@b.c"), attachments=[
            EmailAttachment(filename=name, mime_type="application/octet-stream", data=io.BytesIO(open(p, "rb").read()), is_supported_mime_type=True)])
        n = 0
        try:
            for _r in mail.iterate_supported_attachments():
                n += 1
            v = "ok"
        except _enc_err():
            v = "encrypted"
        except Exception as e:  # noqa
            v = "other:" + type(e).__name__
        if v != "encrypted" or n != 0:
            return fail("EmailContent.iterate_supported_attachments", {"attachment": os.path.relpath(p, REPO)}, "ExtractionFileEncryptedError, 0 results", f"{v}, {n}")
    # 7. EPUB
    from sharepoint2text.parsing.extractors.epub_extractor import read_epub
    ep = open(sorted(glob.glob(os.path.join(RES, "**/*.epub"), recursive=True))[0], "rb").read()
    for label, extra, want in (("plain", [], "ok"), ("rights.xml", [("META-INF/rights.xml", b"<rights/>")], "encrypted"),
                               ("aes EncryptedData", [("META-INF/encryption.xml", enc_xml(["http://www.w3.org/2001/04/xmlenc#aes128-cbc"]))], "encrypted"),
                               ("obfuscation + aes", [("META-INF/encryption.xml", enc_xml(["http://www.idpf.org/2008/embedding", "http://www.w3.org/2001/04/xmlenc#aes256-cbc"]))], "encrypted"),
                               ("EncryptedData without EncryptionMethod", [("META-INF/encryption.xml", enc_xml([None]))], "encrypted"),
                               ("obfuscated font + EncryptedData without EncryptionMethod", [("META-INF/encryption.xml", enc_xml(["http://www.idpf.org/2008/embedding", None]))], "encrypted"),
                               ("encryption.xml without entries", [("META-INF/encryption.xml", enc_xml([]))], "ok")):
        res = run(read_epub, rebuild_zip(ep, extra=extra), "a.epub")
        if res[0] != want or (want == "encrypted" and res[1] != 0):
            return fail("read_epub", {"variant": label}, want, str(res))
    # 8. PDF: pypdf-encrypted copies of a plain fixture (empty / non-empty user password)
    #    (the stored copies of step 9 replaced the slower re-writing of a 50 KB fixture; pdf_pairs() is kept for the F28 replay)
    # 9. stored RC4 / AES-128 / AES-256 copies of a tiny PDF, each read in a fresh process; the AES patch itself
    return aes_patch_check() or embedded_pdfs()


_PDF_WRITER = r"""
import io, json, sys
sys.path.insert(0, sys.argv[1])
from pypdf import PdfReader, PdfWriter
from sharepoint2text.parsing.extractors.pdf._pypdf_aes_fallback import patch_pypdf_fallback_aes
patch_pypdf_fallback_aes()          # writer side only (separate process): pypdf needs an AES provider to *write* AES PDFs
d = open(sys.argv[2], 'rb').read()
out = {}
for algo in ('RC4-40', 'RC4-128', 'AES-128', 'AES-256-R5', 'AES-256'):
    for pw in ('', 'pw'):
        w = PdfWriter()
        for pg in PdfReader(io.BytesIO(d)).pages:
            w.add_page(pg)
        try:
            w.encrypt(user_password=pw, owner_password='owner', algorithm=algo)
            b = io.BytesIO(); w.write(b)
            out[algo + '|' + pw] = b.getvalue().hex()
        except Exception as e:
            out[algo + '|' + pw] = None
print(json.dumps(out))
"""


def pdf_pairs(only=None, skip=()):
    """RC4-40/128, AES-128/256 copies of a plain fixture with empty and non-empty user password (written by pypdf in a
    separate process; read here by the real read_pdf in a process where no AES provider has been patched in yet)."""
    import json
    import subprocess
    import sys
    from sharepoint2text.parsing.extractors.pdf.pdf_extractor import read_pdf
    cands = [p for p in sorted(glob.glob(os.path.join(RES, "**/*.pdf"), recursive=True)) if "password" not in p]
    if not cands:
        return None
    src = min(cands, key=os.path.getsize)
    base = [pg.text for pg in list(read_pdf(io.BytesIO(open(src, "rb").read()), "a.pdf"))[0].pages]
    pr = subprocess.run([sys.executable, "-c", _PDF_WRITER, REPO, src], capture_output=True, text=True, timeout=300)
    try:
        docs = json.loads(pr.stdout.strip().splitlines()[-1])
    except Exception:  # noqa
        return fail("pdf builder", {"fixture": os.path.relpath(src, REPO)}, "encrypted copies written", (pr.stderr or pr.stdout)[-300:])
    made = 0
    for key, hx in sorted(docs.items()):
        if hx is None:
            continue
        made += 1
        if (only is not None and key not in only) or key in skip:
            continue
        algo, user_pw = key.split("|")
        n, got = 0, None
        try:
            for r in read_pdf(io.BytesIO(bytes.fromhex(hx)), "a.pdf"):
                n += 1
                got = [pg.text for pg in r.pages]
            v = "ok"
        except _enc_err():
            v = "encrypted"
        except Exception as e:  # noqa
            v = "other:" + type(e).__name__
        inp = {"fixture": os.path.relpath(src, REPO), "algorithm": algo, "user_password": "non-empty" if user_pw else "empty"}
        if user_pw and (v != "encrypted" or n != 0):
            return fail("read_pdf", inp, "encrypted, 0 results", f"{v}, {n}")
        if not user_pw and (v != "ok" or got != base):
            return fail("read_pdf", inp, "same page texts as the unencrypted original", f"{v}, same_text={got == base}")
    if made < 4:
        return fail("pdf builder", {"written": made}, ">= 4 encrypted copies", "too few")
    return None


_PDF_READER = r"""
import io, json, sys, logging
logging.disable(logging.CRITICAL)
sys.path.insert(0, sys.argv[1])
import base64, zlib
from sharepoint2text.parsing.extractors.pdf.pdf_extractor import read_pdf
from sharepoint2text.parsing.exceptions import ExtractionFileEncryptedError
data = zlib.decompress(base64.b64decode(sys.stdin.read()))
n, text = 0, None
try:
    for r in read_pdf(io.BytesIO(data), 'a.pdf'):
        n += 1
        text = r.get_full_text()
    v = 'ok'
except ExtractionFileEncryptedError:
    v = 'encrypted'
except Exception as e:
    v = 'other:' + type(e).__name__ + ': ' + str(e)[:100] + ' / cause: ' + repr(e.__cause__)[:120]
print(json.dumps({'verdict': v, 'n': n, 'text': text}))
"""


def embedded_pdfs(only=None):
    """The stored copies of one tiny PDF (replay/C08_pdfs.json: plain, and RC4-40/128, AES-128, AES-256 R5/R6 each with the
    empty and with a non-empty user password; written once by pypdf).  Each is read by the real read_pdf in a FRESH process
    (whether pypdf's AES hooks are patched is process state): empty password => the text of the plain original,
    non-empty => ExtractionFileEncryptedError with 0 results."""
    import json
    import subprocess
    import sys
    import base64
    docs = json.load(open(os.path.join(os.path.dirname(os.path.abspath(__file__)), "C08_pdfs.json")))
    # /V 4 documents name their cipher through crypt filters: /StmF and /StrF name an entry of /CF, and a reader resolves
    # whatever name they give.  The same stored documents with the filter called something else than /StdCF (same length:
    # no cross-reference offset moves; the /Encrypt dictionary itself is never encrypted).
    for key in [k for k in docs if k.split("|")[0] in ("AES-128", "AES-128@64")]:
        raw = zlib.decompress(base64.b64decode(docs[key]))
        if raw.count(b"/StdCF") == 3:
            algo, pw = key.split("|")
            docs[algo + "+filter-named-AESCF|" + pw] = base64.b64encode(zlib.compress(raw.replace(b"/StdCF", b"/AESCF"))).decode()

    def read(key):
        pr = subprocess.run([sys.executable, "-c", _PDF_READER, REPO], input=docs[key], capture_output=True, text=True, timeout=900)
        try:
            return json.loads(pr.stdout.strip().splitlines()[-1])
        except Exception:  # noqa
            return {"verdict": "other:reader crashed " + (pr.stderr or "")[-200:], "n": 0, "text": None}
    from concurrent.futures import ThreadPoolExecutor
    keys = sorted(k for k in docs if only is None or k.startswith("plain") or any(k.startswith(o) for o in only))
    with ThreadPoolExecutor(max_workers=8) as pool:
        got = dict(zip(keys, pool.map(read, keys)))
    for pk in ("plain", "plain64"):
        if pk in got and (got[pk]["verdict"] != "ok" or "quarterly totals 1234" not in (got[pk]["text"] or "")):
            return fail("read_pdf", {"stored_pdf": pk}, "extracts", str(got[pk]))
    for key in keys:
        if key.startswith("plain"):
            continue
        algo, pw = key.split("|")
        r = got[key]
        base = got["plain64" if "@64" in algo else "plain"]
        inp = {"stored_pdf": "replay/C08_pdfs.json[" + key + "]", "algorithm": algo, "user_password": "non-empty" if pw else "empty", "process": "fresh"}
        if "+filter-named" in algo:
            inp["crypt_filter"] = "/CF << /AESCF << /CFM /AESV2 >> >> /StmF /AESCF /StrF /AESCF (bytes /StdCF replaced in the stored document)"
        if "@64" in algo:
            inp["content_stream"] = "80 bytes = 5 whole AES blocks (PKCS#7 adds a full padding block)"
        if pw and (r["verdict"] != "encrypted" or r["n"] != 0):
            return fail("read_pdf", inp, "ExtractionFileEncryptedError, 0 results", f"{r['verdict']}, {r['n']} result(s)")
        if not pw and (r["verdict"] != "ok" or r["text"] != base["text"]):
            return fail("read_pdf", inp, "same text as the unencrypted original", f"{r['verdict']}, same_text={r['text'] == base['text']}")
    return None


_PATCH_PROBE = r"""
import json, sys
sys.path.insert(0, sys.argv[1])
import pypdf, pypdf._encryption, pypdf._crypt_providers, pypdf._crypt_providers._fallback as fb
import sharepoint2text.parsing.extractors.pdf._pypdf_aes_fallback as A
names = ('aes_ecb_encrypt', 'aes_ecb_decrypt', 'aes_cbc_encrypt', 'aes_cbc_decrypt')
importers = sorted(m for m, mod in list(sys.modules.items()) if m.startswith('pypdf') and mod is not None
                   and any(hasattr(mod, n) for n in names + ('CryptAES',)))
try:
    fb.aes_cbc_decrypt(b'k' * 16, b'i' * 16, b'd' * 16)
    stub = 'no exception'
except Exception as e:
    stub = type(e).__name__ + ': ' + str(e)
ret = A.patch_pypdf_fallback_aes()
stale = []
for m in importers:
    mod = sys.modules[m]
    for n in names:
        if hasattr(mod, n) and getattr(mod, n) is not getattr(A, n):
            stale.append(m + '.' + n)
    c = getattr(mod, 'CryptAES', None)
    if c is not None:
        try:
            for n_ in range(0, 50):
                msg = bytes((7 * i_ + n_) % 251 for i_ in range(n_))
                back = c(b'k' * 16).decrypt(c(b'k' * 16).encrypt(msg))
                if back != msg:
                    stale.append(m + '.CryptAES: decrypt(encrypt(m)) != m for len(m) = %d (got %d bytes back)' % (n_, len(back)))
                    break
        except Exception as e:
            stale.append(m + '.CryptAES (' + type(e).__name__ + ')')
# CBC / ECB drivers of the built-in AES on messages of many lengths, incl. several 64 KiB boundaries: round trip, and the CBC
# definition itself (P_i = D(C_i) xor C_{i-1}, C_0 = IV) against the ECB driver
def _xor(a, b):
    return bytes(x ^ y for x, y in zip(a, b))
for klen in (16, 32):
    key, iv = bytes(range(klen)), bytes(range(100, 116))
    for n_ in (16, 32, 4096, 65536 - 16, 65536, 65536 + 16, 65536 + 48, 2 * 65536 + 32):
        msg = bytes((i_ * 7 + n_) % 251 for i_ in range(n_))
        try:
            ct = A.aes_cbc_encrypt(key, iv, msg)
            back = A.aes_cbc_decrypt(key, iv, ct)
            ref = b''.join(_xor(A.aes_ecb_decrypt(key, ct[o:o + 16]), (iv if o == 0 else ct[o - 16:o])) for o in range(0, len(ct), 16))
            if back != msg or ref != msg:
                bad = next((o for o in range(0, n_, 16) if back[o:o + 16] != msg[o:o + 16]), None)
                stale.append('aes_cbc_decrypt(aes_cbc_encrypt(m)) != m for a %d-byte key and len(m) = %d (first wrong block at byte %s; CBC definition over the ECB driver gives m: %s)'
                             % (klen, n_, bad, ref == msg))
                break
            if A.aes_ecb_decrypt(key, A.aes_ecb_encrypt(key, msg[:4096])) != msg[:4096]:
                stale.append('aes_ecb_decrypt(aes_ecb_encrypt(m)) != m for a %d-byte key' % klen)
                break
        except Exception as e:
            stale.append('AES driver raised %s for len(m) = %d' % (type(e).__name__, n_))
            break
print(json.dumps({'provider': pypdf._crypt_providers.crypt_provider[0], 'returned': ret, 'importers': importers, 'stale': stale, 'stub': stub}))
"""


def patch_probe():
    """Fresh process: call the real patch_pypdf_fallback_aes() and look at every pypdf module that holds its own binding of
    the AES names.  -> dict(provider, returned, importers, stale)."""
    import json
    import subprocess
    import sys
    if "r" in _PROBE_CACHE:                 # one probe per replayer process (the validator asks twice, the sweep once)
        return _PROBE_CACHE["r"]
    # (the limit only guards against a hang: on a machine with load average > 100 the probe took more than 120 s, and a
    #  verdict must not depend on load)
    pr = subprocess.run([sys.executable, "-c", _PATCH_PROBE, REPO], capture_output=True, text=True, timeout=1500)
    try:
        _PROBE_CACHE["r"] = json.loads(pr.stdout.strip().splitlines()[-1])
    except Exception:  # noqa
        _PROBE_CACHE["r"] = {"error": (pr.stderr or pr.stdout)[-300:]}
    return _PROBE_CACHE["r"]


_PROBE_CACHE = {}


ASSUMED_IMPORTERS = ["pypdf._crypt_providers", "pypdf._crypt_providers._fallback", "pypdf._encryption"]


def aes_patch_check():
    pb = patch_probe()
    if pb.get("error"):
        return None
    if pb["provider"] == "local_crypt_fallback" and (pb["returned"] is not True or pb["stale"]):
        r = embedded_pdfs(only=("AES-256",)) or embedded_pdfs(only=("AES-128",))
        rec = fail("patch_pypdf_fallback_aes", {"process": "fresh", "provider": pb["provider"]},
                   "returns True, every pypdf module that bound the AES names resolves them to the built-in AES, and "
                   "CryptAES.decrypt(CryptAES.encrypt(m)) == m for every length of m in 0..49, CBC/ECB round trips up to 128 KiB",
                   f"returned {pb['returned']}; not as expected after the patch: {pb['stale'][:4]}")
        if r is not None:
            rec["inputs"].update(r["inputs"])
            rec["observed"] += " -> read_pdf: " + r["observed"]
        return rec
    return None


def validate_views():
    """Validation (not proof) of the ASSUMED library views the contracts rest on, against the installed libraries.
    -> [{"fact": id, "ok": bool, "detail": str}]"""
    import struct as _st
    import xml.etree.ElementTree as XET
    out = []

    def fact(fid, fn):
        try:
            ok, detail = fn()
        except Exception as e:  # noqa
            ok, detail = False, "validator crashed: " + repr(e)[:200]
        out.append({"fact": fid, "ok": bool(ok), "detail": str(detail)[:300]})

    def v_pypdf():
        pb = patch_probe()
        if pb.get("error"):
            return False, pb["error"]
        return sorted(pb["importers"]) == sorted(ASSUMED_IMPORTERS), f"modules binding the AES names: {pb['importers']}"
    fact("pypdf-modules-binding-the-aes-names", v_pypdf)

    def v_stub():
        pb = patch_probe()
        if pb.get("error"):
            return False, pb["error"]
        if pb["provider"] != "local_crypt_fallback":
            return True, "a real crypto provider is installed: the fallback path is not used"
        return pb["stub"].startswith("DependencyError") and "AES algorithm" in pb["stub"], "unpatched fallback primitive raises " + pb["stub"]
    fact("pypdf-fallback-stub-raises-DependencyError-mentioning-AES-algorithm", v_stub)

    def v_zip():
        z = zipfile.ZipFile(io.BytesIO(zip_bytes([("a.txt", b"x", 1, None), ("b.txt", b"y", 0, 9), ("d/", b"", 0, None), ("c.txt", b"z", 0, None)])))
        infos = z.infolist()
        types = []
        for nm in ("a.txt", "b.txt", "missing"):
            try:
                z.read(nm)
                types.append(None)
            except Exception as e:  # noqa
                types.append(type(e))
        ok = (types == [RuntimeError, NotImplementedError, KeyError] and issubclass(NotImplementedError, RuntimeError)
              and [i.flag_bits & 1 for i in infos] == [1, 0, 0, 0] and [i.is_dir() for i in infos] == [False, False, True, False] and z.read("c.txt") == b"z")
        # round 7 (ZipContext view): namelist() lists a name exactly when read(name) does not raise KeyError; names are not normalised
        names = set(z.namelist())
        for nm in ("a.txt", "b.txt", "c.txt", "d/", "d", "A.TXT", "/a.txt", "missing", ""):
            try:
                z.getinfo(nm)
                has = True
            except KeyError:
                has = False
            ok = ok and ((nm in names) == has)
        ok = ok and names == {"a.txt", "b.txt", "d/", "c.txt"}
        return ok, f"read(encrypted/unsupported/missing) raised {[t.__name__ if t else None for t in types]}"
    fact("zipfile-flag-bits-is_dir-and-read-exceptions", v_zip)

    def v_ole():
        import olefile
        n = 0
        for p in sorted(glob.glob(os.path.join(RES, "**/*.xls"), recursive=True) + glob.glob(os.path.join(RES, "**/*.doc"), recursive=True))[:6]:
            data = open(p, "rb").read()
            if not olefile.isOleFile(io.BytesIO(data)):
                if data[:8] == b"\xd0\xcf\x11\xe0\xa1\xb1\x1a\xe1":
                    return False, f"{p}: OLE signature but isOleFile is False"
                continue
            with olefile.OleFileIO(io.BytesIO(data)) as ole:
                names = {"/".join(e) for e in ole.listdir(streams=True, storages=True)}
                for nm in ("Workbook", "Book", "WordDocument", "EncryptionInfo", "EncryptedPackage", "1Table", "NoSuchStream"):
                    if ole.exists(nm) != (nm.lower() in {x.lower() for x in names}):
                        return False, f"{p}: exists({nm}) disagrees with listdir"
                    if ole.exists(nm) and ole.get_type(nm) == olefile.STGTY_STREAM and len(ole.openstream(nm).read()) != ole.get_size(nm):
                        return False, f"{p}: read() is not the whole stream {nm}"
            n += 1
        return n >= 2 and not olefile.isOleFile(io.BytesIO(b"PK\x03\x04" + b"\0" * 600)), f"{n} OLE fixtures"
    fact("olefile-isOleFile-exists-openstream-read", v_ole)

    def v_struct():
        rnd = random.Random(1)
        for _ in range(300):
            b = bytes(rnd.getrandbits(8) for _ in range(rnd.randint(0, 12)))
            o = rnd.randint(0, 12)
            for fmt, size in (("<H", 2), ("<I", 4)):
                want = sum(b[o + k] << (8 * k) for k in range(size)) if o + size <= len(b) else None
                try:
                    got = _st.Struct(fmt).unpack_from(b, o)[0]
                except _st.error:
                    got = None
                if got != want:
                    return False, f"Struct({fmt}).unpack_from({b!r}, {o}) = {got}, model {want}"
            for n in (0, 1, 2):
                if len(b) >= n and int.from_bytes(b[:n], "little") != sum(b[k] << (8 * k) for k in range(n)):
                    return False, "int.from_bytes"
        return True, "300 random buffers"
    fact("struct-unpack_from-and-int-from_bytes-little-endian", v_struct)

    def v_xml():
        from defusedxml import ElementTree as DET
        doc = b'<m:manifest xmlns:m="urn:x"><!-- m:encryption-data --><m:file-entry m:full-path="encryption-data"><m:encryption-data/></m:file-entry><plain/></m:manifest>'
        root = DET.fromstring(doc)
        locs = [e.tag.rsplit("}", 1)[-1] for e in root.iter()]
        try:
            DET.fromstring(doc[:40])
            trunc = None
        except Exception as e:  # noqa
            trunc = e
        ok = locs == ["manifest", "file-entry", "encryption-data", "plain"] and isinstance(trunc, (DET.ParseError, XET.ParseError))
        enc = XET.fromstring(enc_xml(["http://www.idpf.org/2008/embedding", None]))
        eds = enc.findall(".//{http://www.w3.org/2001/04/xmlenc#}EncryptedData")
        meths = [e.find("{http://www.w3.org/2001/04/xmlenc#}EncryptionMethod") for e in eds]
        ok = ok and len(eds) == 2 and meths[0] is not None and meths[0].get("Algorithm") == "http://www.idpf.org/2008/embedding" and meths[1] is None
        return ok, f"iter() local names {locs}; truncated document -> {type(trunc).__name__}; findall/find/get as modelled"
    fact("elementtree-iter-tags-ParseError-findall-find-get", v_xml)

    def v_pdf():
        from pypdf import PdfReader
        p = glob.glob(os.path.join(RES, "**/password_protected*/*.pdf"), recursive=True)
        if not p:
            return False, "no protected PDF fixture"
        r = PdfReader(io.BytesIO(open(p[0], "rb").read()))
        res = r.decrypt("")
        try:    # ... and a constructor that is handed a password it cannot open the file with raises instead (policy P6)
            PdfReader(io.BytesIO(open(p[0], "rb").read()), password="")
            ctor = "returned"
        except Exception as e:  # noqa
            ctor = type(e).__name__
        return bool(r.is_encrypted) and res == 0 and int(res) == 0 and ctor == "WrongPasswordError", \
            f"decrypt('') = {res!r} on the protected fixture; PdfReader(f, password='') -> {ctor}"
    fact("pypdf-is_encrypted-and-decrypt-result-0-for-a-rejected-password", v_pdf)

    def v_pdf_encrypt_dict():
        # the /Encrypt dictionary view and `decrypts with AES` (contracts/C08.py::pdf_uses_aes) on the stored documents,
        # incl. the copies whose crypt filter is not called /StdCF: the named filter decides, as pypdf resolves it
        import base64
        import json
        from pypdf import PdfReader
        from sharepoint2text.parsing.extractors.pdf._pypdf_aes_fallback import patch_pypdf_fallback_aes
        patch_pypdf_fallback_aes()          # (this validator process only: AES-256 documents need AES in the constructor)
        docs = json.load(open(os.path.join(os.path.dirname(os.path.abspath(__file__)), "C08_pdfs.json")))
        seen = []
        for key in sorted(docs):
            if key.startswith("AES-256") and not key.startswith("AES-256-R5|"):
                continue                    # (R6 key derivation in pure Python takes seconds per document; R5 has the same dictionary shape)
            raw = zlib.decompress(base64.b64decode(docs[key]))
            for label, data in ((key, raw), (key + " (filter renamed)", raw.replace(b"/StdCF", b"/AESCF"))):
                if label != key and raw.count(b"/StdCF") != 3:
                    continue
                r = PdfReader(io.BytesIO(data))
                if not r.is_encrypted:
                    if "/Encrypt" in r.trailer:
                        return False, f"{label}: not encrypted but the trailer has /Encrypt"
                    continue
                e = r.trailer["/Encrypt"]
                if e.get_object() is not e and e.get_object() != e:
                    return False, f"{label}: trailer['/Encrypt'] is not resolved"
                v = int(e.get("/V", 0))
                stm = str(e.get("/StmF", "/Identity"))
                names = {stm, str(e.get("/StrF", "/Identity")), str(e.get("/EFF", stm))} - {"/Identity"}
                cf = e.get("/CF")
                uses = v >= 4 and any(cf is not None and n in cf and "/CFM" in cf[n] and str(cf[n]["/CFM"]) in ("/AESV2", "/AESV3") and cf[n]["/CFM"] == str(cf[n]["/CFM"])
                                      for n in names)
                en = r._encryption      # pypdf's own resolution: the /CFM of the filters named by /StmF, /StrF, /EFF
                real = any(str(getattr(en, a, "")) in ("/AESV2", "/AESV3") for a in ("StmF", "StrF", "EFF")) if hasattr(en, "StmF") else key.startswith("AES")
                if uses != key.startswith("AES") or uses != real:
                    return False, f"{label}: pdf_uses_aes = {uses}, document algorithm {key.split('|')[0]}, pypdf stream cipher is AES: {real}"
                seen.append(label)
        return len(seen) >= 10, f"{len(seen)} stored encrypted PDFs (RC4 / AES, /StdCF and renamed filters): the named crypt filter's /CFM decides"
    fact("pypdf-encrypt-dictionary-view-and-aes-crypt-filter-resolution", v_pdf_encrypt_dict)
    return out


def _tree_digest():
    import hashlib
    h = hashlib.sha256()
    root = os.path.join(REPO, "sharepoint2text")
    for dp, dn, fn in sorted(os.walk(root)):
        if os.sep + "tests" in dp:
            continue
        for f in sorted(fn):
            if f.endswith(".py"):
                p_ = os.path.join(dp, f)
                h.update(p_.encode())
                h.update(open(p_, "rb").read())
    h.update(open(os.path.abspath(__file__), "rb").read())
    return h.hexdigest()


def cached_sweep():
    """The sweep does not depend on the obligation asked about: one run per (library tree, replayer) version."""
    import json
    path = os.path.join(tempfile.gettempdir(), "c08_sweep_" + _tree_digest()[:24] + ".json")
    try:
        with open(path) as fh:
            return json.load(fh)["result"]
    except Exception:  # noqa
        pass
    r = sweep()
    try:
        with open(path + ".tmp", "w") as fh:
            json.dump({"result": r}, fh, default=repr)
        os.replace(path + ".tmp", path)
    except Exception:  # noqa
        pass
    return r


def find(req):
    import logging
    logging.disable(logging.CRITICAL)
    if req.get("validate_views"):
        return {"reproduced": False, "facts": validate_views()}
    if req.get("known_finding"):
        ok, inputs, obs = finding(req["known_finding"])
        return {"reproduced": bool(ok), "inputs": inputs, "observed": obs, "expected": EXPECT}
    ob = req.get("obligation", "")
    r = cached_sweep()
    if r is not None:
        return r
    for key, fid in OBLIGATION_TO_FINDING.items():
        if key in ob:
            ok, inputs, obs = finding(fid)
            if ok:
                return {"reproduced": True, "target": ob, "inputs": inputs, "observed": obs, "expected": EXPECT}
    return {"reproduced": False, "note": "native sweep (fixtures, ZIP flags, BIFF chains, ODF manifests, 7z coders, EPUB, PDF pairs) found no deviation"}


def rerun(stored):
    return find({"obligation": stored.get("obligation", "")})
