"""Native replay for C15 (histories): every fixture extracted in isolation (fresh process) vs inside long
sequences (two orders, failing inputs interleaved) in one process; process-global state compared before/after."""
import glob
import hashlib
import io
import json
import os
import subprocess
import sys
import tempfile

ISOLATED = r'''
import sys, io, json, hashlib, logging
logging.disable(logging.CRITICAL)
repo, path = sys.argv[1], sys.argv[2]
sys.path.insert(0, repo)
import sharepoint2text
try:
    ex = sharepoint2text.get_extractor(path)
    res = list(ex(io.BytesIO(open(path, "rb").read()), path))
    print(hashlib.sha256("".join(json.dumps(r.to_json(), sort_keys=True, default=str) for r in res).encode()).hexdigest())
except Exception as e:
    print("ERR:" + type(e).__name__)
'''


def digest(sharepoint2text, path):
    try:
        ex = sharepoint2text.get_extractor(path)
        res = list(ex(io.BytesIO(open(path, "rb").read()), path))
        return hashlib.sha256("".join(json.dumps(r.to_json(), sort_keys=True, default=str) for r in res).encode()).hexdigest()
    except Exception as e:  # noqa
        return "ERR:" + type(e).__name__


def global_state():
    st = {}
    try:
        import pypdf._page as pg
        st["pypdf._page.build_char_map"] = id(getattr(pg, "build_char_map", None))
    except Exception:  # noqa
        pass
    for modname in ("pypdf._cmap", "pypdf._font"):
        try:
            m = __import__(modname, fromlist=["x"])
            st[modname + ".get_encoding"] = id(getattr(m, "get_encoding", None))
        except Exception:  # noqa
            pass
    st["tmp_entries"] = len(os.listdir(tempfile.gettempdir()))
    try:
        st["open_fds"] = len(os.listdir("/proc/self/fd"))
    except OSError:
        pass
    return st


def find(req):
    repo = os.environ.get("VERIF_REPO", "/repo")
    import sharepoint2text
    files = sorted(f for f in glob.glob(repo + "/sharepoint2text/tests/resources/*/*") if os.path.isfile(f) and sharepoint2text.is_supported_file(f))
    files = [f for f in files if os.path.getsize(f) < 3_000_000]
    # warm-up (imports, one-way AES patch) then snapshot
    digest(sharepoint2text, files[0])
    for f in files:
        if f.endswith(".pdf"):
            digest(sharepoint2text, f)
            break
    before = global_state()
    seq1 = {f: digest(sharepoint2text, f) for f in files}
    seq2 = {f: digest(sharepoint2text, f) for f in reversed(files)}
    after = global_state()
    mism = []
    for k in before:
        if k in ("tmp_entries", "open_fds"):
            if after.get(k, 0) > before[k]:
                mism.append((k, f"{before[k]} -> {after.get(k)}"))
        elif before[k] != after.get(k):
            mism.append((k, "function object replaced and not restored"))
    for f in files:
        if seq1[f] != seq2[f]:
            mism.append((f[len(repo) + 1:], "result depends on extraction order within one process"))
    # isolated baseline for the PDFs and a sample of the rest (fresh process each)
    sample = [f for f in files if f.endswith(".pdf")] + files[::9]
    for f in sample:
        p = subprocess.run([sys.executable, "-c", ISOLATED, repo, f], capture_output=True, text=True, timeout=300)
        iso = (p.stdout.strip().splitlines() or ["?"])[-1]
        if iso != seq1[f]:
            mism.append((f[len(repo) + 1:], "result in a long sequence differs from the isolated extraction"))
    if req.get("list_all"):
        return {"reproduced": bool(mism), "mismatches": mism, "fixtures": len(files)}
    if mism:
        return {"reproduced": True, "target": mism[0][0], "inputs": {"history": "all fixtures forward then reverse in one process"},
                "expected": "same results as in isolation; process-global state restored", "observed": mism[0][1], "all": mism[:8]}
    return {"reproduced": False, "note": f"{len(files)} fixtures, two orders, {len(sample)} isolated baselines: no history dependence, global state restored"}


def rerun(stored):
    return find({})
