"""Native replay for C15: histories AND (one-preemption) schedules on the real code.

Every run happens in a child forked from this process, which only ever *imports* the library: the state of the
parent is the state of a fresh process, so "result in isolation" is a fork that does nothing else.

  * memo_search      function-level: f(y) after f(x) vs f(y) in isolation, arguments drawn from type-directed pools (TrueType
                     programs and all their one-byte variants, AES keys, paths, glyph-id lists) -- finds colliding cache keys;
                     then with TRANSIENT arguments (transient_search: f(x), x dies, f(y) with y allocated at x's former address)
                     -- finds keys built from object identity (id(arg)) by a memo that does not keep the object alive;
  * history_search   document-level: generated documents (EPUB / HTML incl. truncated ones, text, archives, corrupt inputs) and
                     small fixtures, every ordered pair against the isolated baseline, process-global state before / after;
  * serial_search    stored payloads deserialised after other (de)serialisation work vs in isolation;
  * schedule_search  two threads, thread A preempted ONCE at every line of the functions that touch a piece of module state
                     (sys.settrace), thread B runs to completion, A resumes; outcomes against the isolated baselines;
  * fixtures         (legacy, `list_all`) every fixture forward / reverse in one process vs fresh-process baselines.
"""
import glob
import hashlib
import importlib
import io
import json
import os
import signal
import struct
import subprocess
import sys
import tempfile
import threading
import zipfile

REPO = os.environ.get("VERIF_REPO", "/repo")

ISOLATED = r'''
import sys, io, json, hashlib, logging
logging.disable(logging.CRITICAL)
repo, path = sys.argv[1], sys.argv[2]
sys.path.insert(0, repo)
import sharepoint2text
try:
    ex = sharepoint2text.get_extractor(path)
    res = list(ex(io.BytesIO(open(path, "rb").read()), path))
    print(hashlib.sha256("".join(json.dumps(r.to_json(), sort_keys=True, default=str) for r in res).encode()).hexdigest())
except Exception as e:
    print("ERR:" + type(e).__name__)
'''


def digest(sharepoint2text, path):
    try:
        ex = sharepoint2text.get_extractor(path)
        res = list(ex(io.BytesIO(open(path, "rb").read()), path))
        return hashlib.sha256("".join(json.dumps(r.to_json(), sort_keys=True, default=str) for r in res).encode()).hexdigest()
    except Exception as e:  # noqa
        return "ERR:" + type(e).__name__


def global_state():
    st = {}
    try:
        import pypdf._page as pg
        st["pypdf._page.build_char_map"] = id(getattr(pg, "build_char_map", None))
    except Exception:  # noqa
        pass
    for modname in ("pypdf._cmap", "pypdf._font"):
        try:
            m = __import__(modname, fromlist=["x"])
            st[modname + ".get_encoding"] = id(getattr(m, "get_encoding", None))
        except Exception:  # noqa
            pass
    st.update(interpreter_settings())
    st["tmp_entries"] = len(os.listdir(tempfile.gettempdir()))
    try:
        st["open_fds"] = len(os.listdir("/proc/self/fd"))
    except OSError:
        pass
    return st


def interpreter_settings():
    """Interpreter- / library-wide settings an extraction could change and forget to put back (compared by value)."""
    import csv
    import decimal
    import locale
    import logging as _logging
    import mimetypes
    import socket
    import warnings
    out = {}

    def put(k, fn):
        try:
            out["setting:" + k] = repr(fn())
        except Exception:  # noqa
            pass
    put("sys.getrecursionlimit", sys.getrecursionlimit)
    put("csv.field_size_limit", csv.field_size_limit)
    put("socket.getdefaulttimeout", socket.getdefaulttimeout)
    put("locale", lambda: locale.setlocale(locale.LC_ALL))
    put("warnings.filters", lambda: [(f[0], getattr(f[2], "__name__", f[2]), f[4]) for f in warnings.filters])
    put("logging.disable", lambda: _logging.root.manager.disable)
    put("logging.root.level", lambda: _logging.root.level)
    for n_, l_ in list(_logging.root.manager.loggerDict.items()):
        if hasattr(l_, "level"):
            out["setting:logger " + n_] = repr((l_.level, len(l_.handlers or []), l_.disabled, l_.propagate))
    put("logging.root.handlers", lambda: len(_logging.root.handlers))
    put("decimal.traps", lambda: sorted(str(k) for k, v in decimal.getcontext().traps.items() if v))
    put("cwd", os.getcwd)
    put("os.environ", lambda: hashlib.sha256(repr(sorted(os.environ.items())).encode()).hexdigest()[:16])
    put("sys.path", lambda: hashlib.sha256(repr(sys.path).encode()).hexdigest()[:16])
    put("decimal.prec", lambda: (decimal.getcontext().prec, decimal.getcontext().rounding))
    put("mimetypes", lambda: (len(mimetypes.types_map), len(mimetypes.common_types), len(mimetypes.suffix_map), len(mimetypes.encodings_map)))
    put("sys.settrace", lambda: sys.gettrace() is not None)
    put("switchinterval", sys.getswitchinterval)
    put("gc", lambda: (__import__("gc").isenabled(), __import__("gc").get_threshold()))
    put("tempfile.tempdir", lambda: tempfile.tempdir)
    # plain module-level settings of every third-party module that is loaded (pypdf limits, PIL switches, ...), by value
    for name, mod in sorted(sys.modules.items()):
        f = getattr(mod, "__file__", None) or ""
        if "site-packages" not in f:
            continue
        try:
            simple = sorted((k, repr(v)) for k, v in vars(mod).items()
                            if not k.startswith("__") and isinstance(v, (bool, int, float, str, bytes, type(None))))
        except Exception:  # noqa
            continue
        for (k, v) in simple:
            out[f"setting:module {name}.{k}"] = v if len(v) <= 60 else hashlib.sha256(v.encode()).hexdigest()[:12]
    try:
        from PIL import Image, ImageFile
        put("PIL.MAX_IMAGE_PIXELS", lambda: Image.MAX_IMAGE_PIXELS)
        put("PIL.LOAD_TRUNCATED_IMAGES", lambda: ImageFile.LOAD_TRUNCATED_IMAGES)
    except Exception:  # noqa
        pass
    try:
        from xml.etree import ElementTree as ET
        put("ET._namespace_map", lambda: len(ET._namespace_map))
    except Exception:  # noqa
        pass
    return out


def state_diff(before, after):
    mism = []
    for k in before:
        if k in ("tmp_entries", "open_fds"):
            if after.get(k, 0) > before[k]:
                mism.append((k, f"{before[k]} -> {after.get(k)}"))
        elif k.startswith("setting:"):
            if before[k] != after.get(k):
                if k.startswith("setting:sharepoint2text") and before[k] == "None":
                    continue          # a lazily initialised module-level constant (None -> object, once) is not residue
                mism.append((k, f"{before[k][:80]} -> {str(after.get(k))[:80]}"))
        elif before[k] != after.get(k):
            mism.append((k, "function object replaced and not restored"))
    for k in after:
        if k not in before and k.startswith("setting:sharepoint2text") and after[k] != "None":
            mism.append((k, f"(absent) -> {str(after[k])[:80]}"))
        if k not in before and k.startswith("setting:logger ") and after[k] != repr((0, 0, False, True)):
            mism.append((k, f"(created) -> {after[k]}"))        # a logger that did not exist yet is fine as long as it has the default settings
    return mism


# ------------------------------------------------------------------ forking --
def forked(fn, timeout=120):
    """fn() in a forked child of this pristine process -> {"ok": result} | {"err": "Type: msg"}."""
    r, w = os.pipe()
    pid = os.fork()
    if pid == 0:
        os.close(r)
        signal.alarm(timeout)
        try:
            res = {"ok": fn()}
        except BaseException as e:  # noqa
            res = {"err": type(e).__name__ + ": " + str(e)[:200]}
        try:
            with os.fdopen(w, "w") as fh:
                json.dump(res, fh, default=repr)
        finally:
            os._exit(0)
    os.close(w)
    with os.fdopen(r) as fh:
        data = fh.read()
    os.waitpid(pid, 0)
    try:
        return json.loads(data)
    except ValueError:
        return {"err": "child died (timeout / crash)"}


def outcome(fn, *args):
    try:
        return ["ok", canon(fn(*args))]
    except BaseException as e:  # noqa
        return ["exc", type(e).__name__]


def canon(v):
    if isinstance(v, (bytes, bytearray, memoryview)):
        return "bytes:" + bytes(v).hex()
    if isinstance(v, dict):
        return {"dict": [[canon(k), canon(x)] for k, x in v.items()]}
    if isinstance(v, (list, tuple)):
        return [canon(x) for x in v]
    if isinstance(v, (str, int, float, bool)) or v is None:
        return v
    if isinstance(v, type):
        return "type:" + v.__name__
    from dataclasses import fields, is_dataclass
    if is_dataclass(v):
        return {"dataclass": type(v).__name__, "fields": [[f.name, canon(getattr(v, f.name))] for f in fields(v)]}
    if hasattr(v, "getvalue"):
        return "bytesio:" + hashlib.sha256(v.getvalue()).hexdigest()
    if callable(v):
        return "callable:" + getattr(v, "__qualname__", type(v).__name__)
    return "obj:" + type(v).__name__


# ------------------------------------------------------------ generated data --
def build_ttf(glyph_boxes, units=2048):
    """Minimal TrueType program (glyf, head, loca long, maxp), per-table checksums 0."""
    head = bytearray(54)
    head[18:20] = struct.pack(">H", units)
    head[50:52] = struct.pack(">h", 1)
    maxp = bytearray(6)
    maxp[4:6] = struct.pack(">H", len(glyph_boxes))
    glyf, offsets = b"", []
    for (w, h) in glyph_boxes:
        offsets.append(len(glyf))
        glyf += struct.pack(">hhhhh", 1, 0, 0, w, h) + b"\x00\x00"
    offsets.append(len(glyf))
    loca = b"".join(struct.pack(">I", o) for o in offsets)
    tables = [(b"glyf", glyf), (b"head", bytes(head)), (b"loca", loca), (b"maxp", bytes(maxp))]
    header = struct.pack(">IHHHH", 0x00010000, len(tables), 64, 2, 0)
    off = 12 + 16 * len(tables)
    directory = body = b""
    for tag, data in tables:
        directory += struct.pack(">4sIII", tag, 0, off, len(data))
        body += data
        off += len(data)
    return header + directory + body


def bytes_pool():
    base = build_ttf([(0, 0), (540, 1472), (949, 1447)])
    other = build_ttf([(0, 0), (949, 1447), (540, 1472)])
    pool = [base, other]
    # file signatures (content sniffing): same name, different leading bytes
    pool += [sig + b"\x00" * 24 for sig in (b"\x89PNG\r\n\x1a\n", b"\xff\xd8\xff\xe0", b"GIF89a", b"BM", b"II*\x00", b"MM\x00*", b"%PDF-1.4\n", b"PK\x03\x04",
                                              b"\xd0\xcf\x11\xe0\xa1\xb1\x1a\xe1", b"<?xml version=\"1.0\"?><svg/>", b"RIFF\x00\x00\x00\x00WEBP")]
    for i in range(len(base)):                       # every one-byte variant: a cache key that ignores a byte collides here
        pool.append(base[:i] + bytes([base[i] ^ 0x15]) + base[i + 1:])
    k16 = bytes(range(16))
    pool += [k16, bytes(16), bytes(range(24)), bytes(range(32)), bytes(32), b"", b"\x00", k16[:15], k16 + b"\x00"]
    for i in range(16):
        pool.append(k16[:i] + bytes([k16[i] ^ 0x80]) + k16[i + 1:])
    return pool


def module_strings(mod, cap=40):
    """Short string constants of the module's own source (path prefixes, suffixes, marker names): candidate ingredients of inputs."""
    import ast as _ast
    import inspect as _inspect
    try:
        tree = _ast.parse(_inspect.getsource(mod))
    except Exception:  # noqa
        return []
    out = []
    for n in _ast.walk(tree):
        if isinstance(n, _ast.Constant) and isinstance(n.value, str) and 1 <= len(n.value) <= 16 and "\n" not in n.value and " " not in n.value.strip() \
                and not n.value.isidentifier():
            if n.value not in out:
                out.append(n.value)
    return out[:cap]


TABLE_LINES = ["Period 12/31/2023 12/31/2024", "Total cashflow 100 200", "Net income 5 6"]

POOLS = {
    "list[str]": lambda: [TABLE_LINES, TABLE_LINES + ["cash 1 2", "flow 3 4"], ["Total cashflow 100 200", "cash flow statement"], [], ["alpha beta"],
                          ["Other expenses 1,000 2,000", "Netincome 3 4", "net 1 1"], ["A 1 2"]],
    "bytes": bytes_pool,
    "list[int]": lambda: [[1, 2], [2, 1], [1], [0, 1, 2, 3], []],
    "str": lambda: ["a.png", "doc.pdf", "notes.txt", "report.docx", "a.jpg", "data.csv", "b.png", "Pictures/image1.png", "a.PNG", "x.unknown", "", "dir/a.png",
                    "a.png ", "a.svg", "ä.png", "page.html", "book.epub", "figure1.pct"],
    "int": lambda: [0, 1, 2, 255],
    "bool": lambda: [False, True],
}

CONTAINER = ('<?xml version="1.0"?><container version="1.0" xmlns="urn:oasis:names:tc:opendocument:xmlns:container"><rootfiles>'
             '<rootfile full-path="OEBPS/content.opf" media-type="application/oebps-package+xml"/></rootfiles></container>')
OPF = ('<?xml version="1.0" encoding="utf-8"?><package xmlns="http://www.idpf.org/2007/opf" version="3.0" unique-identifier="id">'
       '<metadata xmlns:dc="http://purl.org/dc/elements/1.1/"><dc:title>{title}</dc:title><dc:identifier id="id">{title}</dc:identifier>'
       '<dc:language>en</dc:language></metadata><manifest>{items}</manifest><spine>{refs}</spine></package>')
HEAD = '<?xml version="1.0"?><html xmlns="http://www.w3.org/1999/xhtml"><head><title>t</title></head><body>'
GOOD = (HEAD + "<h1>Quarterly figures</h1><p>Revenue rose by 12 percent.</p><p>Costs were flat.</p>"
        "<table><tr><td>Q1</td><td>100</td></tr><tr><td>Q2</td><td>112</td></tr></table><p>Outlook unchanged.</p></body></html>")
# content documents that stop in the middle of an element (truncated download / sloppy generator), one per parser state
TRUNCATED = {
    "cell": HEAD + "<h1>Inventory</h1><table><tr><td>Widgets</td><td>4",
    "table": HEAD + "<p>x</p><table><tr><td>a</td></tr>",
    "title": '<?xml version="1.0"?><html xmlns="http://www.w3.org/1999/xhtml"><head><title>Unfinished',
    "script": HEAD + "<p>before</p><script>var a = 1;",
    "style": HEAD + "<style>p { color: red",
    "block": HEAD + "<div><p>open paragraph",
    "heading": HEAD + "<h2>open heading",
    "list": HEAD + "<ul><li>one<li>two",
    "comment": HEAD + "<p>a</p><!-- unterminated",
    "entity": HEAD + "<p>a &amp",
    "pre": HEAD + "<pre>  keep   this",
    "anchor": HEAD + '<p><a href="http://e.org/x">link text',
}


def make_epub(title, chapters):
    buf = io.BytesIO()
    with zipfile.ZipFile(buf, "w") as zf:
        zf.writestr("mimetype", "application/epub+zip", zipfile.ZIP_STORED)
        zf.writestr("META-INF/container.xml", CONTAINER)
        items = "".join(f'<item id="c{i}" href="c{i}.xhtml" media-type="application/xhtml+xml"/>' for i in range(len(chapters)))
        refs = "".join(f'<itemref idref="c{i}"/>' for i in range(len(chapters)))
        zf.writestr("OEBPS/content.opf", OPF.format(title=title, items=items, refs=refs))
        for i, ch in enumerate(chapters):
            zf.writestr(f"OEBPS/c{i}.xhtml", ch)
    return buf.getvalue()


def make_zip(members):
    buf = io.BytesIO()
    with zipfile.ZipFile(buf, "w") as zf:
        for n, d in members:
            zf.writestr(n, d)
    return buf.getvalue()


def make_pdf(lines, resources_extra=b"", extra_objs=()):
    """One-page PDF, Helvetica, one text line per `lines` entry (uncompressed content stream, valid xref); `extra_objs` become the
    objects 6, 7, ... (image XObjects named from `resources_extra`)."""
    esc = lambda t: t.replace("\\", "\\\\").replace("(", "\\(").replace(")", "\\)")
    content = ("BT /F1 11 Tf 72 740 Td 14 TL\n" + "\n".join(f"({esc(l)}) Tj T*" for l in lines) + "\nET").encode("latin-1", "replace")
    objs = [b"<< /Type /Catalog /Pages 2 0 R >>", b"<< /Type /Pages /Kids [3 0 R] /Count 1 >>",
            b"<< /Type /Page /Parent 2 0 R /MediaBox [0 0 612 792] /Contents 5 0 R /Resources << /Font << /F1 4 0 R >> " + resources_extra + b" >> >>",
            b"<< /Type /Font /Subtype /Type1 /BaseFont /Helvetica /Encoding /WinAnsiEncoding >>",
            b"<< /Length %d >>\nstream\n" % len(content) + content + b"\nendstream"] + list(extra_objs)
    out, offs = bytearray(b"%PDF-1.4\n"), []
    for i, o in enumerate(objs, 1):
        offs.append(len(out))
        out += b"%d 0 obj\n" % i + o + b"\nendobj\n"
    xref = len(out)
    out += b"xref\n0 %d\n" % (len(objs) + 1) + b"0000000000 65535 f \n" + b"".join(b"%010d 00000 n \n" % o for o in offs)
    out += b"trailer\n<< /Size %d /Root 1 0 R >>\nstartxref\n%d\n%%%%EOF\n" % (len(objs) + 1, xref)
    return bytes(out)


def make_tar(members):
    import tarfile
    buf = io.BytesIO()
    with tarfile.open(fileobj=buf, mode="w") as tf:
        for n, d in members:
            d = d if isinstance(d, bytes) else d.encode()
            ti = tarfile.TarInfo(n)
            ti.size = len(d)
            tf.addfile(ti, io.BytesIO(d))
    return buf.getvalue()


ODT_MANIFEST = ('<?xml version="1.0" encoding="UTF-8"?><manifest:manifest xmlns:manifest="urn:oasis:names:tc:opendocument:xmlns:manifest:1.0" manifest:version="1.2">'
                '<manifest:file-entry manifest:full-path="/" manifest:media-type="application/vnd.oasis.opendocument.text"/>'
                '<manifest:file-entry manifest:full-path="content.xml" manifest:media-type="text/xml"/>{pics}</manifest:manifest>')
ODT_CONTENT = ('<?xml version="1.0" encoding="UTF-8"?><office:document-content xmlns:office="urn:oasis:names:tc:opendocument:xmlns:office:1.0" '
               'xmlns:text="urn:oasis:names:tc:opendocument:xmlns:text:1.0" xmlns:draw="urn:oasis:names:tc:opendocument:xmlns:drawing:1.0" '
               'xmlns:xlink="http://www.w3.org/1999/xlink" xmlns:svg="urn:oasis:names:tc:opendocument:xmlns:svg-compatible:1.0" office:version="1.2">'
               '<office:body><office:text><text:p>Report with figures.</text:p>{frames}<text:p>End.</text:p></office:text></office:body></office:document-content>')


def make_odt(pictures, extra_body=""):
    """Minimal ODT embedding `pictures` = [(member name, bytes)] as draw:image frames (+ `extra_body`: more paragraphs)."""
    frames = "".join(f'<text:p><draw:frame draw:name="f{i}" svg:width="2cm" svg:height="2cm"><draw:image xlink:href="{n}" xlink:type="simple"/></draw:frame></text:p>'
                     for i, (n, _d) in enumerate(pictures))
    pics = "".join(f'<manifest:file-entry manifest:full-path="{n}" manifest:media-type=""/>' for (n, _d) in pictures)
    buf = io.BytesIO()
    with zipfile.ZipFile(buf, "w") as zf:
        zf.writestr("mimetype", "application/vnd.oasis.opendocument.text", zipfile.ZIP_STORED)
        zf.writestr("META-INF/manifest.xml", ODT_MANIFEST.format(pics=pics))
        zf.writestr("content.xml", ODT_CONTENT.format(frames=frames + extra_body))
        for n, d in pictures:
            zf.writestr(n, d)
    return buf.getvalue()


def make_epub_with_items(title, chapters, items):
    """EPUB whose manifest also lists `items` = [(href, declared media-type, bytes)] (images, fonts, ... declared or not)."""
    buf = io.BytesIO()
    with zipfile.ZipFile(buf, "w") as zf:
        zf.writestr("mimetype", "application/epub+zip", zipfile.ZIP_STORED)
        zf.writestr("META-INF/container.xml", CONTAINER)
        its = "".join(f'<item id="c{i}" href="c{i}.xhtml" media-type="application/xhtml+xml"/>' for i in range(len(chapters)))
        its += "".join(f'<item id="r{i}" href="{h}" media-type="{mt}"/>' for i, (h, mt, _d) in enumerate(items))
        refs = "".join(f'<itemref idref="c{i}"/>' for i in range(len(chapters)))
        zf.writestr("OEBPS/content.opf", OPF.format(title=title, items=its, refs=refs))
        for i, ch in enumerate(chapters):
            zf.writestr(f"OEBPS/c{i}.xhtml", ch)
        for (h, _mt, d) in items:
            zf.writestr("OEBPS/" + h, d)
    return buf.getvalue()


PNG_1x1 = bytes.fromhex("89504e470d0a1a0a0000000d4948445200000001000000010806000000"
                        "1f15c4890000000d49444154789c6360000002000001e221bc330000000049454e44ae426082")
# image formats a manifest may declare although the platform's MIME table does not know their extension
RARE_IMAGE_TYPES = [("figure1.pct", "image/x-pict"), ("photo.wdp", "image/vnd.ms-photo"), ("scan.tga", "image/x-tga"), ("draw.svm", "image/x-svm"),
                    ("pic.jxr", "image/jxr"), ("plain.png", "image/png"), ("undeclared.png", "")]
TABLE_PAGES = {
    "table with cash / flow words": ["Statement of cash and flow positions", "Period 12/31/2023 12/31/2024", "Total cashflow 100 200", "Net income 5 6", "cash 1 2", "flow 3 4"],
    "table without them": ["Annual statement", "Period 12/31/2023 12/31/2024", "Total cashflow 100 200", "Net income 5 6", "Other items 7 8"],
    "table with net / income words": ["Summary of net results and income", "Period 12/31/2023 12/31/2024", "Group netincome 10 20", "Total cashflow 1 2", "net 1 1", "income 2 2"],
    "prose only": ["This page has no table at all.", "Only two sentences of prose."],
}


def generated_corpus(tmp):
    """[(label, path)]: small documents of several formats, well-formed ones and ones that fail or stop early."""
    docs = []

    def add(label, name, data):
        p = os.path.join(tmp, name)
        with open(p, "wb") as fh:
            fh.write(data if isinstance(data, bytes) else data.encode("utf-8"))
        docs.append((label, p))

    add("epub good", "good.epub", make_epub("Book B", [GOOD]))
    add("epub two chapters", "two.epub", make_epub("Book C", [GOOD.replace("Quarterly", "Annual"), HEAD + "<p>second</p></body></html>"]))
    for k, frag in TRUNCATED.items():
        add(f"epub truncated in {k}", f"trunc_{k}.epub", make_epub("Book " + k, [frag]))
    add("html good", "good.html", GOOD)
    for k in ("cell", "title", "script", "comment"):
        add(f"html truncated in {k}", f"trunc_{k}.html", TRUNCATED[k])
    add("text", "plain.txt", "alpha\nbeta 123\n")
    add("csv", "t.csv", "a,b\n1,2\n")
    add("markdown", "n.md", "# T\n\ntext\n")
    add("json", "d.json", '{"a": [1, 2]}')
    add("zip of text+html", "a.zip", make_zip([("x.txt", "inside"), ("y.html", GOOD)]))
    add("zip with corrupt member", "b.zip", make_zip([("x.pdf", b"%PDF-1.4 broken"), ("z.txt", "tail")]))
    add("corrupt zip", "c.zip", b"PK\x03\x04" + b"\x00" * 40)
    add("corrupt pdf", "bad.pdf", b"%PDF-1.7\n1 0 obj <<>> endobj\ntrailer <<>>\n%%EOF")
    add("corrupt docx", "bad.docx", make_zip([("word/document.xml", "<w:document")]))
    add("corrupt epub", "bad.epub", make_zip([("mimetype", "application/epub+zip")]))
    add("corrupt 7z", "bad.7z", b"7z\xbc\xaf\x27\x1c\x00\x04" + b"\x01" * 40)
    # PDFs with tables that share row labels but not vocabulary
    for k, (lab, lines) in enumerate(TABLE_PAGES.items()):
        add(f"pdf {lab}", f"table{k}.pdf", make_pdf(lines))
    # PDFs whose text extracts but whose page resources are malformed (the failure comes AFTER the text of the page was produced)
    for k, extra in enumerate([b"/XObject [ ]", b"/XObject 7", b"/XObject /Name", b"/XObject << /Im0 9 0 R >>", b"/XObject << /Im0 << /Subtype /Image >> >>", b"/ExtGState 3"]):
        add(f"pdf with malformed resources {extra.decode()}", f"badres{k}.pdf", make_pdf(["Some text before the damage.", "Total cashflow 1 2"], extra))
    # archives: the same base names in different directories / under system prefixes, in both container formats
    members_mac = [("__MACOSX/summary.txt", "resource fork junk"), ("__MACOSX/._notes.txt", "junk"), ("notes.txt", "real notes")]
    members_plain = [("reports/summary.txt", "the real summary"), ("reports/notes.txt", "other notes"), (".hidden/summary.txt", "x")]
    add("zip exported on a Mac", "mac.zip", make_zip(members_mac))
    add("zip with reports/", "reports.zip", make_zip(members_plain))
    add("tar exported on a Mac", "mac.tar", make_tar(members_mac))
    add("tar with reports/", "reports.tar", make_tar(members_plain))
    add("zip with nested zip", "nested.zip", make_zip([("inner/a.zip", make_zip([("summary.txt", "inner")])), ("summary.txt", "outer")]))
    # manifests that declare rare image types / no type; documents that can only guess the type from the name
    add("epub with rare image types", "images.epub", make_epub_with_items("Book I", [GOOD], [(h, mt, PNG_1x1) for (h, mt) in RARE_IMAGE_TYPES]))
    add("odt embedding rare image types", "figures.odt", make_odt([("Pictures/" + h, PNG_1x1) for (h, _mt) in RARE_IMAGE_TYPES[:5]]))
    add("rtf", "r.rtf", r"{\rtf1\ansi{\fonttbl{\f0 Arial;}}\f0 Hello \b world\b0 .\par}")
    add("eml", "m.eml", "From: a@e.org\nTo: b@e.org\nSubject: s\nDate: Mon, 1 Jan 2024 00:00:00 +0000\n\nbody\n")
    return docs


def flate_image_object(width, height, inflated_size):
    """Image XObject (DeviceGray, 8 bit, FlateDecode) whose dictionary declares width x height and whose stream inflates to
    `inflated_size` zero bytes."""
    import zlib
    co = zlib.compressobj(6)
    chunk, parts, left = bytes(1 << 20), [], inflated_size
    while left > 0:
        k = min(left, len(chunk))
        parts.append(co.compress(chunk[:k]))
        left -= k
    parts.append(co.flush())
    img = b"".join(parts)
    return (b"<< /Type /XObject /Subtype /Image /Width %d /Height %d /ColorSpace /DeviceGray /BitsPerComponent 8 /Filter /FlateDecode /Length %d >>\nstream\n"
            % (width, height, len(img)) + img + b"\nendstream")


def limit_corpus(tmp, heavy=True):
    """[(label, path)]: documents AT THE LIMITS of what runs underneath the extractors -- the code paths on which a library is
    tempted to move a process-wide limit: mark-up nested deeper than the interpreter's recursion limit, and (heavy) PDF image streams
    that inflate beyond pypdf's output limit, once honestly declared by Width x Height and once not (a decompression bomb)."""
    docs = []

    def add(label, name, data):
        p = os.path.join(tmp, name)
        with open(p, "wb") as fh:
            fh.write(data if isinstance(data, bytes) else data.encode("utf-8"))
        docs.append((label, p))
    depth = sys.getrecursionlimit() + 600
    for tag in ("text:span", "text:a"):
        deep = f"<{tag}>" * depth + "deeply nested words" + f"</{tag}>" * depth
        add(f"odt with a paragraph of {depth} nested {tag} (deeper than the recursion limit {sys.getrecursionlimit()})", f"deep_{tag[5:]}.odt",
            make_odt([], extra_body=f"<text:p>{deep}</text:p>"))
    add(f"html with {depth} nested div", "deep.html", HEAD + "<div>" * depth + "<p>bottom</p>" + "</div>" * depth + "</body></html>")
    add(f"epub chapter with {depth} nested span", "deep.epub", make_epub("Deep", [HEAD + "<p>" + "<span>" * depth + "bottom" + "</span>" * depth + "</p></body></html>"]))
    if heavy:
        try:
            import pypdf.filters as pf
            limits = sorted({v for k, v in vars(pf).items() if isinstance(v, int) and not isinstance(v, bool) and "MAX" in k.upper() and 1 << 20 <= v <= 200 << 20})
        except Exception:  # noqa
            limits = []
        for lim in limits[:1]:
            big = lim + (20 << 20)
            side = int(big ** 0.5) + 1
            res = b"/XObject << /Im0 6 0 R >>"
            add(f"pdf with a {side}x{side} gray scan ({side * side} bytes inflated, above pypdf's inflate limit {lim}, as declared)", "scan_declared.pdf",
                make_pdf(["A large scan."], res, [flate_image_object(side, side, side * side)]))
            add(f"pdf with an image declared 8x8 whose stream inflates to {lim + (5 << 20)} bytes (above pypdf's inflate limit {lim})", "scan_bomb.pdf",
                make_pdf(["A small picture."], res, [flate_image_object(8, 8, lim + (5 << 20))]))
            add(f"pdf with an image declared 8x8 whose stream inflates to {lim - (1 << 20)} bytes (just below pypdf's inflate limit)", "scan_under.pdf",
                make_pdf(["A small picture."], res, [flate_image_object(8, 8, lim - (1 << 20))]))
    return docs


def limits_search():
    """Histories over `limit_corpus`: every document alone (process-global state before / after), then every document right after
    every other one against its isolated result."""
    import sharepoint2text
    tmp = tempfile.mkdtemp(prefix="c15_limits_")
    try:
        docs = limit_corpus(tmp)
        label = dict((p, l) for (l, p) in docs)

        def alone(p):
            before = dict(global_state(), **package_state())
            d = digest(sharepoint2text, p)
            return [d, state_diff(before, dict(global_state(), **package_state()))]
        base = {}
        for (lab, p) in docs:
            r = forked(lambda p=p: alone(p), timeout=180).get("ok")
            if r is None:
                continue
            base[p] = r[0]
            leaks = [m for m in r[1] if m[0] != "open_fds"]
            if leaks:
                return {"reproduced": True, "target": lab, "inputs": {"history": [], "document": lab, "bytes_hex": _hex(p)},
                        "expected": "process-global state (interpreter / third-party settings, temporary files) restored after the extraction",
                        "observed": f"{leaks[0][0]}: {leaks[0][1]}", "search": "documents at the limits of the interpreter / of pypdf"}
        paths = [p for (_l, p) in docs if p in base]
        for first in paths:
            for p in paths:
                if p == first:
                    continue
                g = forked(lambda first=first, p=p: (digest(sharepoint2text, first), digest(sharepoint2text, p))[1], timeout=300).get("ok")
                if g is not None and g != base[p]:
                    return {"reproduced": True, "target": label[p],
                            "inputs": {"history": [label[first]], "history_bytes_hex": _hex(first), "document": label[p], "bytes_hex": _hex(p)},
                            "expected": f"digest of the isolated extraction {base[p][:16]}", "observed": f"{str(g)[:16]} after extracting {label[first]} in the same process",
                            "search": "documents at the limits of the interpreter / of pypdf, every document after every other one"}
        return None
    finally:
        import shutil
        shutil.rmtree(tmp, ignore_errors=True)


def small_fixtures(limit=400_000, per_dir=3):
    out = []
    for d in sorted(glob.glob(REPO + "/sharepoint2text/tests/resources/*")):
        fs = sorted(f for f in glob.glob(d + "/*") if os.path.isfile(f) and os.path.getsize(f) < limit)
        out += [(os.path.relpath(f, REPO), f) for f in fs[:per_dir]]
    return out


# --------------------------------------------------------------- memo search --
def _kind(ann):
    s = ann if isinstance(ann, str) else (str(ann) if getattr(ann, "__origin__", None) is not None else getattr(ann, "__name__", None) or str(ann))
    s = str(s).replace("typing.", "").replace("List", "list").replace(" ", "")
    if s.startswith("Optional[") and s.endswith("]"):
        return _kind(s[9:-1])
    if s.endswith("|None"):
        return _kind(s[:-5])
    if s.startswith("None|"):
        return _kind(s[5:])
    if s in ("bytes", "bytes|bytearray", "bytearray"):
        return "bytes"
    if s in ("list[int]", "Sequence[int]", "tuple[int,...]"):
        return "list[int]"
    if s in ("list[str]", "Sequence[str]", "Iterable[str]"):
        return "list[str]"
    return s if s in POOLS else None


def memo_search(rel, qual, budget=700):
    import inspect
    import itertools
    if not rel or not qual or qual.count(".") > 1 or "<locals>" in qual:
        return None
    try:
        mod = importlib.import_module(rel[:-3].replace("/", "."))
        if "." in qual:
            # a method: the function under test is  (init args..., call args...) -> Class(*init args).method(*call args)
            cname, mname = qual.split(".")
            cls = getattr(mod, cname)
            raw = inspect.getattr_static(cls, mname)
            init_ps = [p for p in list(inspect.signature(cls.__init__).parameters.values())[1:]] if "__init__" in vars(cls) or cls.__init__ is not object.__init__ else []
            if isinstance(raw, staticmethod):
                call_ps, n_init = list(inspect.signature(raw.__func__).parameters.values()), 0
                init_ps = []
                f = getattr(cls, mname)
            elif isinstance(raw, classmethod):
                call_ps, n_init = list(inspect.signature(raw.__func__).parameters.values())[1:], 0
                init_ps = []
                f = getattr(cls, mname)
            else:
                call_ps, n_init = list(inspect.signature(raw).parameters.values())[1:], len(init_ps)

                def f(*a, _cls=cls, _m=mname, _n=n_init):
                    return getattr(_cls(*a[:_n]), _m)(*a[_n:])
            params = init_ps + call_ps
        else:
            f = getattr(mod, qual)
            params = list(inspect.signature(f).parameters.values())
    except Exception:  # noqa
        return None
    kinds = []
    for p in params:
        if p.kind in (p.VAR_POSITIONAL, p.VAR_KEYWORD):
            return None
        k = _kind(p.annotation)
        if k is None:
            if p.default is not p.empty:
                continue
            return None
        kinds.append(k)
    if not kinds:
        return None
    pools = [list(POOLS[k]()) for k in kinds]
    # strings the module itself mentions (prefixes, suffixes, marker names) combined with a plain name, and the text of the line pools
    consts = module_strings(mod)
    for k, pool in zip(kinds, pools):
        if k == "str":
            first = pool[0]
            for c in consts:
                for v in (c + first, first + c, c):
                    if v not in pool:
                        pool.append(v)
            if "list[str]" in kinds:
                # text-processing code: the interesting strings are the ones the line pools are made of (labels, words) -- those first
                import re as _re
                derived = []
                for lines in POOLS["list[str]"]():
                    for ln in lines:
                        m_ = _re.match(r"[A-Za-z ]+", ln)
                        for v in ([m_.group(0).strip()] if m_ else []) + ln.split():
                            if v and v not in derived:
                                derived.append(v)
                pool[:] = (derived + [v for v in pool if v not in derived])[:70]
    size = 1
    for pool in pools:
        size *= len(pool)
    if size <= budget:
        cands = [list(t) for t in itertools.product(*pools)]
    else:
        # argument tuples: each pool in full with the others at their first values; then the others varied at the second values
        cands = []
        firsts = [p[0] for p in pools]
        for i, pool in enumerate(pools):
            for v in pool:
                t = list(firsts)
                t[i] = v
                if t not in cands:
                    cands.append(t)
        for i, pool in enumerate(pools[1:], 1):
            for v in pool[:3]:
                t = [p[1] if len(p) > 1 else p[0] for p in pools]
                t[i] = v
                if t not in cands:
                    cands.append(t)
    # several string parameters often describe ONE thing (a path and its base name, a name and its normal form): the diagonal,
    # plain and decorated with the module's own prefixes / suffixes
    str_idx = [i for i, k in enumerate(kinds) if k == "str"]
    if len(str_idx) >= 2 and size > budget:
        diag = []
        base_vals = list(POOLS["str"]())
        for deco, v in [(d_, v_) for d_ in [""] + consts for v_ in base_vals[:6]] + [(d_, v_) for d_ in [""] + consts for v_ in base_vals[6:]]:
            if True:
                for j in str_idx:
                    for w in (deco + v, v + deco):
                        t = [p[0] for p in pools]
                        for i in str_idx:
                            t[i] = v
                        t[j] = w
                        if t not in diag:
                            diag.append(t)
        cands = diag[: budget // 2] + [c for c in cands if c not in diag]
    cands = cands[:budget]
    show = lambda t: [("hex:" + bytes(x).hex()) if isinstance(x, (bytes, bytearray)) else x for x in t]
    base = [forked(lambda y=y: outcome(f, *y)).get("ok") for y in cands]
    step = 1 if len(cands) <= 800 else len(cands) // 400
    firsts_x = cands[:2] + cands[2::step]                  # every candidate is also tried as the earlier call (sampled above 320)
    for x in firsts_x:
        def run(x=x):
            outcome(f, *x)
            return [outcome(f, *y) for y in cands]
        got = forked(run).get("ok") or []
        for y, b, g in zip(cands, base, got):
            if b is not None and g != b:
                # confirm with the minimal history [x, y]
                g2 = forked(lambda: (outcome(f, *x), outcome(f, *y))[1]).get("ok")
                if g2 != b:
                    return {"reproduced": True, "target": f"{rel}::{qual}", "inputs": {"history": [show(x)], "call": show(y)},
                            "expected": f"the result of the same call in a fresh process: {json.dumps(b)[:300]}", "observed": json.dumps(g2)[:300],
                            "search": "memo differential: f(y) after f(x) vs f(y) in a forked pristine process"}
        # and the other direction: x after each y is covered when y becomes x for the two `other` bases above
    return transient_search(f, cands, base, show, rel, qual)


def fresh_copy(v):
    """An equal object at a new address (for the types whose instances live on the heap)."""
    if isinstance(v, bytes):
        return bytes(memoryview(v)) if v else v
    if isinstance(v, bytearray):
        return bytearray(v)
    if isinstance(v, str):
        return (v + " ")[:-1] if len(v) > 1 else v
    if isinstance(v, list):
        return [fresh_copy(e) for e in v]
    if isinstance(v, tuple):
        return tuple(fresh_copy(e) for e in v)
    return v


def transient_search(f, cands, base, show, rel, qual, cap=40):
    """Arguments that DIE between the two calls: f(x) with x dropped afterwards, then f(y) with every argument of y allocated at the
    address the corresponding argument of x had (CPython hands a freed block to the next object of its size class) -- finds memo keys
    built from object identity (`id(arg)`, `hash` of an identity-hashed object) that do not keep the object alive.  The pools above
    keep every candidate alive, so no two of their objects ever share an address."""
    def sig(t):
        return tuple((type(v).__name__, len(v)) if hasattr(v, "__len__") else (type(v).__name__, None) for v in t)
    groups = {}
    for y, b in zip(cands, base):
        if b is not None and any(isinstance(v, (bytes, bytearray, str, list, tuple)) and len(v) > 1 for v in y):
            groups.setdefault(sig(y), []).append((y, b))
    pairs = []
    for g in sorted(groups.values(), key=lambda g_: -len(g_)):
        picks = [(0, 1), (1, 0), (0, len(g) - 1)] if len(g) > 1 else []
        for (i, j) in picks:
            if i != j and g[i][1] != g[j][1] and (g[i][0], g[j][0], g[j][1]) not in pairs:
                pairs.append((g[i][0], g[j][0], g[j][1]))
    for (x, y, b) in pairs[:cap]:
        def run(x=x, y=y):
            xs = [fresh_copy(v) for v in x]
            ids = [id(v) for v in xs]
            outcome(f, *xs)
            del xs
            ys, reused = [], 0
            for i, v in enumerate(y):
                keep, got = [], None
                for _ in range(64):
                    c = fresh_copy(v)
                    if id(c) == ids[i] and c is not v:
                        got = c
                        break
                    keep.append(c)
                reused += got is not None
                ys.append(got if got is not None else fresh_copy(v))
                del keep
            return [outcome(f, *ys), reused]
        got = forked(run).get("ok")
        if got and got[1] and got[0] != b:
            again = forked(run).get("ok")
            if again and again[0] != b:
                return {"reproduced": True, "target": f"{rel}::{qual}",
                        "inputs": {"history": [show(x)], "call": show(y),
                                   "lifetime": "the arguments of the earlier call are garbage before the later call; the later arguments are new objects "
                                               f"that the allocator placed at the earlier arguments' addresses ({got[1]} of {len(y)})"},
                        "expected": f"the result of the same call in a fresh process: {json.dumps(b)[:300]}", "observed": json.dumps(again[0])[:300],
                        "search": "memo differential with transient arguments: f(x); del x; f(y) with id(y) == the former id(x), vs f(y) in a forked pristine process"}
    return None


# ------------------------------------------------------------ history search --
def package_state():
    """Module-level flags, counters and configuration objects of the package itself, by value (containers -- the caches -- are
    left out: they may grow; what they hold is the memo obligations' business)."""
    out = {}
    for name, mod in sorted(sys.modules.items()):
        if not name.startswith("sharepoint2text") or ".tests" in name or mod is None:
            continue
        for k, v in list(vars(mod).items()):
            if k.startswith("__"):
                continue
            if isinstance(v, (bool, int, float, str, bytes, type(None))):
                out[f"setting:{name}.{k}"] = repr(v)[:200]
            elif hasattr(v, "__dataclass_fields__") and not isinstance(v, type):
                out[f"setting:{name}.{k}"] = repr(v)[:300]
            # state hidden on code objects: function attributes, mutable default arguments (also of methods)
            fs = []
            if getattr(v, "__module__", None) == name and callable(v):
                if isinstance(v, type):
                    fs = [(f"{k}.{a}", getattr(m, "__func__", m)) for a, m in list(vars(v).items()) if callable(getattr(m, "__func__", m))]
                    for a, m in list(vars(v).items()):
                        if isinstance(m, (bool, int, float, str)) and not a.startswith("__"):
                            out[f"setting:{name}.{k}.{a}"] = repr(m)[:120]
                else:
                    fs = [(k, v)]
            for (fq, f) in fs:
                f = getattr(f, "__wrapped__", f)
                for a, val in list(getattr(f, "__dict__", {}).items()):
                    if a != "__wrapped__" and isinstance(val, (bool, int, float, str, bytes, type(None), list, dict, set, tuple)):
                        out[f"setting:{name}.{fq}.{a}"] = repr(val)[:200]
                dfl = list(getattr(f, "__defaults__", None) or ()) + list((getattr(f, "__kwdefaults__", None) or {}).values())
                if any(isinstance(d, (list, dict, set, bytearray)) for d in dfl):
                    out[f"setting:{name}.{fq}.__defaults__"] = repr([d for d in dfl if isinstance(d, (list, dict, set, bytearray))])[:300]
    return out


def corrupted_archives(tmp, per_file=9):
    """[(label, path)]: the small archive fixtures with a few bytes of their packed data destroyed at several places -- the header
    still parses, unpacking fails half-way (the paths on which temporary directories and patched configuration must be undone)."""
    out = []
    for f in sorted(glob.glob(REPO + "/sharepoint2text/tests/resources/archives/*")):
        if not os.path.isfile(f) or os.path.getsize(f) > 200_000:
            continue
        data = open(f, "rb").read()
        name = os.path.basename(f)
        stem, ext = (name[:-7], name[-7:]) if name.endswith(".tar.gz") else os.path.splitext(name)
        lo, hi = 32, max(40, len(data) - 8)
        step = max(1, (hi - lo) // per_file)
        for k, pos in enumerate(range(lo, hi, step)):
            bad = bytearray(data)
            for j in range(pos, min(pos + 6, len(bad))):
                bad[j] ^= 0xFF
            p = os.path.join(tmp, f"{stem}_damaged{k}{ext}")
            with open(p, "wb") as fh:
                fh.write(bytes(bad))
            out.append((f"{name} with bytes {pos}..{pos + 5} inverted", p))
        p = os.path.join(tmp, f"{stem}_truncated{ext}")
        with open(p, "wb") as fh:
            fh.write(data[: len(data) * 2 // 3])
        out.append((f"{name} cut after {len(data) * 2 // 3} bytes", p))
        p = os.path.join(tmp, f"{stem}_intact{ext}")
        with open(p, "wb") as fh:
            fh.write(data)
        out.append((f"{name} (intact)", p))
    return out


def history_search(docs=None, extra_note=""):
    import sharepoint2text
    tmp = tempfile.mkdtemp(prefix="c15_replay_")
    try:
        probes = [] if docs else corrupted_archives(tmp)
        docs = docs or generated_corpus(tmp)
        paths = [p for (_l, p) in docs]
        label = {p: l for (l, p) in docs + probes}

        def alone(p):
            before = dict(global_state(), **package_state())
            d = digest(sharepoint2text, p)
            # a failed extraction whose exception the caller KEEPS (error list, batch report, logging with exc_info): the state must
            # be back although the traceback still references the library's frames
            held = []
            try:
                ex = sharepoint2text.get_extractor(p)
                list(ex(io.BytesIO(open(p, "rb").read()), p))
            except Exception as exc:  # noqa
                held.append(exc)
            if held:
                leaks = [m for m in state_diff(before, dict(global_state(), **package_state())) if m[0] != "open_fds"]
                if leaks:
                    return [d, [(leaks[0][0], leaks[0][1] + " (while the caller still holds the raised exception)")]]
            del held
            # a generator abandoned half-way (the caller stops iterating) must clean up as well
            try:
                ex = sharepoint2text.get_extractor(p)
                g = ex(io.BytesIO(open(p, "rb").read()), p)
                next(g, None)
                g.close()
            except Exception:  # noqa
                pass
            return [d, state_diff(before, dict(global_state(), **package_state()))]
        base = {}
        # probes: failing / damaged inputs -- state before vs after, and the intact documents extracted right after them
        followers = [p for (l, p) in probes if l.endswith("(intact)")]
        for (lab, p) in probes:
            if p in followers:
                continue
            r = forked(lambda p=p: alone(p)).get("ok")
            if r is None:
                continue
            leaks = [m for m in r[1] if m[0] != "open_fds"]
            if leaks:
                return {"reproduced": True, "target": lab, "inputs": {"history": [], "document": lab, "bytes_hex": _hex(p)},
                        "expected": "process-global state (temporary files, module configuration, patched functions) restored after the failed extraction",
                        "observed": f"{leaks[0][0]}: {leaks[0][1]}", "search": "archive fixtures with damaged packed data"}
        for p in paths:
            r = forked(lambda p=p: alone(p)).get("ok")
            if r is None:
                continue
            base[p] = r[0]
            leaks = [m for m in r[1] if m[0] != "open_fds"]
            if leaks:
                return {"reproduced": True, "target": label[p], "inputs": {"history": [], "document": label[p], "bytes_hex": _hex(p)},
                        "expected": "process-global state restored after the extraction", "observed": f"{leaks[0][0]}: {leaks[0][1]}"}
        paths = [p for p in paths if p in base]
        for i, first in enumerate(paths):
            rest = paths[i + 1:] + paths[:i]            # rotated: every document is the immediate successor of another one

            def run(first=first, rest=rest):
                digest(sharepoint2text, first)
                return [digest(sharepoint2text, p) for p in rest + [first]]
            got = forked(run, timeout=300).get("ok") or []
            for p, g in zip(rest + [first], got):
                if g != base[p]:
                    order = [first] + rest + [first]
                    upto = order[: 1 + (rest + [first]).index(p)]
                    hist_paths = None
                    for cand in ([upto[-1]], [first], upto):     # smallest history first: the predecessor, the first document, the whole prefix
                        g2 = forked(lambda cand=cand: [digest(sharepoint2text, q) for q in cand + [p]][-1], timeout=300).get("ok")
                        if g2 != base[p]:
                            hist_paths = cand
                            break
                    if hist_paths is not None:
                        hist = [label[q] for q in hist_paths]
                        return {"reproduced": True, "target": label[p],
                                "inputs": {"history": hist, "history_bytes_hex": _hex(hist_paths[0]) if len(hist) == 1 else None, "document": label[p], "bytes_hex": _hex(p)},
                                "expected": f"digest of the isolated extraction {base[p][:16]}", "observed": f"{str(g2)[:16]} after extracting {hist} in the same process",
                                "search": "generated documents, every document after every other one" + extra_note}
        return None
    finally:
        import shutil
        shutil.rmtree(tmp, ignore_errors=True)


def interleave_search(cap=220):
    """Lazily consumed results: extractors are generators, so two extractions can be alive in ONE thread.  For every ordered pair of
    multi-result documents (A, B) (archive fixtures, generated archives / books; B may be a second copy of A):
      (i)  take the first result of A, extract B completely, continue A;   (ii) first of A, first of B, rest of A, rest of B;
    each result list against the document extracted alone in a forked pristine process; temp-dir residue afterwards."""
    import sharepoint2text
    tmp = tempfile.mkdtemp(prefix="c15_inter_")
    try:
        docs = [(l, p) for (l, p) in corrupted_archives(tmp, per_file=1) if l.endswith("(intact)")] + generated_corpus(tmp)

        def results(p, gen=False):
            ex = sharepoint2text.get_extractor(p)
            g = ex(io.BytesIO(open(p, "rb").read()), p)
            return g

        def sig(r):
            return hashlib.sha256(json.dumps(r.to_json(), sort_keys=True, default=str).encode()).hexdigest()[:16]

        def drain(g, out):
            try:
                for r in g:
                    out.append(sig(r))
            except Exception as e:  # noqa
                out.append("ERR:" + type(e).__name__)
            return out

        def alone(p):
            try:
                g = results(p)
            except Exception as e:  # noqa
                return ["ERR:" + type(e).__name__]
            return drain(g, [])
        base = {}
        for (_l, p) in docs:
            r = forked(lambda p=p: alone(p)).get("ok")
            if r is not None and len([x for x in r if not x.startswith("ERR:")]) >= 2:
                base[p] = r
        multi = [(l, p) for (l, p) in docs if p in base]
        ext = lambda p: os.path.basename(p).split(".", 1)[-1]
        pairs = [(a, b) for a in multi for b in multi]
        pairs.sort(key=lambda ab: (ext(ab[0][1]) != ext(ab[1][1]), ab[0][1] != ab[1][1]))      # same document twice, then same format, then the rest
        tried = 0
        for ((la, pa), (lb, pb)) in pairs[:cap]:
            for mode in ("B completely while A is suspended after its first result", "A and B both suspended after their first result, then A, then B"):
                def run(pa=pa, pb=pb, mode=mode):
                    before = global_state()
                    ga = results(pa)
                    out_a, out_b = [], []
                    try:
                        out_a.append(sig(next(ga)))
                    except StopIteration:
                        pass
                    except Exception as e:  # noqa
                        out_a.append("ERR:" + type(e).__name__)
                    gb = results(pb)
                    if mode.startswith("B completely"):
                        drain(gb, out_b)
                        drain(ga, out_a)
                    else:
                        try:
                            out_b.append(sig(next(gb)))
                        except StopIteration:
                            pass
                        except Exception as e:  # noqa
                            out_b.append("ERR:" + type(e).__name__)
                        drain(ga, out_a)
                        drain(gb, out_b)
                    del ga, gb
                    leaks = [m for m in state_diff(before, global_state()) if m[0] != "open_fds"]
                    return [out_a, out_b, leaks]
                tried += 1
                r = forked(run, timeout=120).get("ok")
                if not r:
                    continue
                out_a, out_b, leaks = r
                who = None
                if out_a != base[pa]:
                    who, exp, got, lab = "A", base[pa], out_a, la
                elif out_b != base[pb]:
                    who, exp, got, lab = "B", base[pb], out_b, lb
                if who or leaks:
                    return {"reproduced": True, "target": la if who != "B" else lb,
                            "inputs": {"history": f"one thread, two lazily consumed extractions: A = {la}, B = {lb}" + (" (a second copy of the same bytes)" if pa == pb else "") + f"; {mode}",
                                       "document_A": la, "bytes_hex_A": _hex(pa), "document_B": lb, "bytes_hex_B": _hex(pb) if pb != pa else None},
                            "expected": (f"extraction {who} yields the results it yields alone: {len(exp)} result(s) {exp}" if who else
                                         "process-global state (temporary files) restored once both generators are exhausted"),
                            "observed": (f"{len(got)} result(s) {got}" if who else f"{leaks[0][0]}: {leaks[0][1]}"),
                            "search": f"interleaved generators over {len(multi)} multi-result documents ({tried} interleavings tried)"}
        return None
    finally:
        import shutil
        shutil.rmtree(tmp, ignore_errors=True)


def _hex(p, cap=4000):
    try:
        b = open(p, "rb").read()
        return b.hex() if len(b) <= cap else None
    except OSError:
        return None


# ------------------------------------------------------ (de)serialisation ----
def describe(obj):
    from dataclasses import fields, is_dataclass
    if is_dataclass(obj) and not isinstance(obj, type):
        return {"__class__": type(obj).__name__, **{f.name: describe(getattr(obj, f.name)) for f in fields(obj)}}
    if isinstance(obj, dict):
        return {"__dict__": {str(k): describe(v) for k, v in obj.items()}}
    if isinstance(obj, (list, tuple)):
        return [describe(v) for v in obj]
    if hasattr(obj, "getvalue"):
        return {"__bytesio__": len(obj.getvalue())}
    if isinstance(obj, (bytes, bytearray)):
        return {"__bytes__": len(obj)}
    return obj if isinstance(obj, (str, int, float, bool)) or obj is None else repr(type(obj))


def payloads():
    """[(label, json text)] stored extraction results, each produced in its own fresh process."""
    import sharepoint2text
    want = ["pdf/multi_image.pdf", "modern_ms/sample_with_comment_and_table.docx", "plain_text/plain.txt", "pdf/multi_table.pdf", "html/sample.html"]
    files = [REPO + "/sharepoint2text/tests/resources/" + w for w in want]
    files = [f for f in files if os.path.isfile(f)]
    if len(files) < 3:
        files += [p for (_l, p) in small_fixtures(per_dir=1)][:6]
    out = []
    for f in files:
        def mk(f=f):
            ex = sharepoint2text.get_extractor(f)
            r = next(iter(ex(io.BytesIO(open(f, "rb").read()), f)))
            return json.dumps(r.to_json())
        r = forked(mk).get("ok")
        if r:
            out.append((os.path.relpath(f, REPO), f, r))
    return out


def serial_search():
    import sharepoint2text
    from sharepoint2text.parsing.extractors import serialization as ser
    pls = payloads()
    if not pls:
        return None

    def load(text):
        return describe(ser.deserialize_extraction(json.loads(text)))
    base = {lab: forked(lambda t=t: load(t)).get("ok") for (lab, _f, t) in pls}
    ops = []
    for (lab, f, t) in pls:
        ops.append((f"extract {lab} and to_json()", lambda f=f: [json.dumps(r.to_json()) for r in sharepoint2text.get_extractor(f)(io.BytesIO(open(f, "rb").read()), f)]))
        ops.append((f"deserialize_extraction(stored result of {lab})", lambda t=t: load(t)))
    for (oplab, op) in ops:
        for (lab, _f, t) in pls:
            def run(op=op, t=t):
                try:
                    op()
                except Exception:  # noqa
                    pass
                return load(t)
            got = forked(run).get("ok")
            if base[lab] is not None and got != base[lab]:
                return {"reproduced": True, "target": "serialization.deserialize_extraction", "inputs": {"history": [oplab], "call": f"deserialize_extraction(stored result of {lab})"},
                        "expected": "the object tree a fresh process restores: " + _skeleton(base[lab]), "observed": _skeleton(got),
                        "search": "stored payloads of fixtures loaded after one other (de)serialisation step vs in a forked pristine process"}
    return None


def _skeleton(o, depth=0):
    if isinstance(o, dict) and "__class__" in o:
        inner = sorted({_skeleton(v, depth + 1) for v in o.values() if isinstance(v, (dict, list))} - {""})
        return o["__class__"] + ("(" + ", ".join(inner)[:160] + ")" if inner and depth < 3 else "")
    if isinstance(o, dict) and "__dict__" in o:
        return "plain dict"
    if isinstance(o, list):
        return "[" + ", ".join(sorted({_skeleton(v, depth + 1) for v in o} - {""}))[:120] + "]" if o else ""
    return ""


# ---------------------------------------------------------- schedule search --
BLOCK_WAIT = 0.6      # a released thread that neither parks nor finishes within this time is blocked on a lock the other one holds


def run_schedule(task_a, task_b, files, funcs, n, block_wait=None):
    """Thread A runs task_a and is parked at its n-th line event inside (files, funcs); thread B then runs task_b to the end;
    A resumes.  Returns (outcome A, outcome B, line events seen, where A was parked)."""
    out, cnt, where = {}, [0], [None]
    parked, resume = threading.Event(), threading.Event()

    def tracer(frame, event, arg):
        co = frame.f_code
        if co.co_filename not in files or (funcs and co.co_name not in funcs):
            return None

        def local(frame, event, arg):
            if event == "line":
                cnt[0] += 1
                if cnt[0] == n:
                    where[0] = f"{os.path.basename(frame.f_code.co_filename)}:{frame.f_lineno} in {frame.f_code.co_name}"
                    parked.set()
                    resume.wait(block_wait or 20)          # B done -- or B is blocked waiting for us: go on
            return local
        return local

    def a():
        sys.settrace(tracer)
        try:
            out["A"] = outcome(task_a)
        finally:
            sys.settrace(None)
            parked.set()

    def b():
        parked.wait(20)
        try:
            out["B"] = outcome(task_b)
        finally:
            resume.set()
    ta, tb = threading.Thread(target=a), threading.Thread(target=b)
    ta.start()
    tb.start()
    ta.join(40)
    tb.join(40)
    return out.get("A"), out.get("B"), cnt[0], where[0]


def workloads(rel, funcs=None, focus=None):
    """[(label A, task A, label B, task B)] concurrent workloads for the module that owns the state."""
    import sharepoint2text
    base = os.path.basename(rel or "")
    w = []
    if base == "_pypdf_aes_fallback.py":
        from sharepoint2text.parsing.extractors.pdf import _pypdf_aes_fallback as aes
        key, iv = bytes(range(32)), bytes(range(16, 32))
        plain = b"stream of document A, 48 bytes, three AES blocks"
        ct = forked(lambda: aes.aes_cbc_encrypt(key, iv, plain).hex()).get("ok")
        if ct:
            ct = bytes.fromhex(ct)

            def others():
                for n in range(6):
                    aes.aes_cbc_encrypt(bytes([n + 1]) * 16, bytes(16), bytes(32))
                return "done"

            def warm_then(fn):
                return fn
            w.append(("aes_cbc_decrypt(key A, iv, 3 blocks)", lambda: aes.aes_cbc_decrypt(key, iv, ct),
                      "aes_cbc_encrypt under 6 other keys (password checks of other documents)", others, None))
            w.append(("aes_cbc_decrypt(key A, ...) with key A already cached", lambda: aes.aes_cbc_decrypt(key, iv, ct),
                      "aes_cbc_encrypt under 6 other keys", others, lambda: aes.aes_ecb_encrypt(key, bytes(16))))
    elif base == "serialization.py":
        from sharepoint2text.parsing.extractors import serialization as ser
        pls = payloads()
        if len(pls) >= 2:
            (la, _fa, ta), (lb, _fb, tb) = pls[0], pls[1]
            w.append((f"deserialize_extraction(stored {la})", lambda: describe(ser.deserialize_extraction(json.loads(ta))),
                      f"deserialize_extraction(stored {lb})", lambda: describe(ser.deserialize_extraction(json.loads(tb))), None))
            w.append((f"deserialize_extraction(stored {lb})", lambda: describe(ser.deserialize_extraction(json.loads(tb))),
                      f"deserialize_extraction(stored {la})", lambda: describe(ser.deserialize_extraction(json.loads(ta))), None))
            # serialising one result with different options in two threads (the object is rebuilt from its stored form first)
            H = {}

            def load_obj():
                if "obj" not in H:
                    H["obj"] = ser.deserialize_extraction(json.loads(ta))

            def dump(flag):
                d = ser.serialize_extraction(H["obj"], include_binary=flag)
                return hashlib.sha256(json.dumps(d, sort_keys=True, default=str).encode()).hexdigest()
            w.append((f"serialize_extraction(result of {la}, include_binary=False)", lambda: dump(False),
                      f"serialize_extraction(result of {la}, include_binary=True)", lambda: dump(True), load_obj))
            w.append((f"serialize_extraction(result of {la}, include_binary=True)", lambda: dump(True),
                      f"serialize_extraction(result of {la}, include_binary=False)", lambda: dump(False), load_obj))
    elif base == "pdf_extractor.py":
        from sharepoint2text.parsing.extractors.pdf import pdf_extractor as pe
        fa, fb = build_ttf([(0, 0), (540, 1472), (949, 1447)]), build_ttf([(0, 0), (949, 1447), (540, 1472)])
        if hasattr(pe, "_ttf_get_glyph_features"):
            w.append(("_ttf_get_glyph_features(font A, [1, 2])", lambda: pe._ttf_get_glyph_features(fa, [1, 2]),
                      "_ttf_get_glyph_features(font B, [1, 2])", lambda: pe._ttf_get_glyph_features(fb, [1, 2]), None))
    if not w:
        tmp = tempfile.mkdtemp(prefix="c15_sched_")
        docs = dict(generated_corpus(tmp))
        kind = ".epub" if "epub" in base else (".html" if "html" in base else ".zip" if "archive" in base else ".epub")
        ps = [p for p in docs.values() if p.endswith(kind)][:3]
        if funcs and rel:
            # chosen by what they EXECUTE: the documents (generated ones and those at the interpreter's limits) whose extraction spends
            # the most line events inside the functions named by the obligation; the same document in both threads comes first
            files = {os.path.join(REPO, rel)}
            at_limits = limit_corpus(tmp, heavy=False)
            n_lim = len(at_limits)
            cands = at_limits + list(docs.items())
            score = []
            lo, hi = (min(focus) - 6, max(focus) + 3) if focus else (0, 0)
            for ci, (lab, p) in enumerate(cands):
                tr = forked(lambda p=p: line_trace(lambda: digest(sharepoint2text, p), files, set(funcs)), timeout=60).get("ok") or []
                if tr:
                    # documents that reach the statements named by the obligation first, then the busiest ones
                    # (a RecursionError inside the traced code switches tracing off, so the exceptional paths of the documents at the
                    # interpreter's limits are invisible to the trace: those documents come next)
                    score.append((-len({ln for ln in tr if lo <= ln <= hi}), ci >= n_lim, -len(tr), lab, p))
            score.sort()
            top = score[:3]
            lbl = lambda lab, p: f"extract {os.path.basename(p)} ({lab[:90]})"
            if top:
                ps = []
                top = [t[2:] for t in top]
                for (_r, la, a) in top[:2]:
                    for (_r2, lb, b) in [(0, la, a)] + [t for t in top if t[2] != a]:
                        w.append((lbl(la, a), lambda a=a: digest(sharepoint2text, a), lbl(lb, b), lambda b=b: digest(sharepoint2text, b), None))
        for a in ps[:2]:
            for b in ps:
                if a != b:
                    w.append((f"extract {os.path.basename(a)}", lambda a=a: digest(sharepoint2text, a), f"extract {os.path.basename(b)}", lambda b=b: digest(sharepoint2text, b), None))
    return w


def schedule_search(rel, funcs, cap=260):
    files = {os.path.join(REPO, rel)} if rel else set()
    funcs = set(funcs or ())
    for (la, ta, lb, tb, warm) in workloads(rel, funcs):
        import time as _time

        def prep():
            if warm:
                warm()
        base_a = forked(lambda: (prep(), outcome(ta))[1]).get("ok")
        t0 = _time.time()
        base_b = forked(lambda: (prep(), outcome(tb))[1]).get("ok")
        bw = max(1.0, 25 * (_time.time() - t0))            # B needs about this long alone; much longer = blocked on a lock A holds
        total = forked(lambda: (prep(), run_schedule(ta, lambda: None, files, funcs, -1))[1][2]).get("ok") or 0
        if not total:
            continue
        ns = list(range(1, total + 1))
        if total > cap:
            ns = ns[: cap // 2] + [1 + (k * (total - 1)) // (cap // 2) for k in range(cap // 2)]
        for n in sorted(set(ns)):
            r = forked(lambda n=n: (prep(), run_schedule(ta, tb, files, funcs, n, bw))[1], timeout=90).get("ok")
            if not r:
                continue
            oa, ob, _cnt, where = r
            if oa != base_a or ob != base_b:
                who, exp, got = ("A", base_a, oa) if oa != base_a else ("B", base_b, ob)
                return {"reproduced": True, "target": rel,
                        "inputs": {"schedule": f"thread A: {la}" + (" (after a warm-up call)" if warm else "") + f"; parked at its line event #{n} ({where}); thread B: {lb}, runs to completion; A resumes",
                                   "preemption_point": where, "line_event": n},
                        "expected": f"thread {who}: the outcome of the same call alone: {json.dumps(exp)[:200]}", "observed": json.dumps(got)[:300],
                        "search": f"two threads, one preemption of A at each of {len(set(ns))} line events of the functions touching the state ({total} in all)"}
    return None


# ------------------------------------------------- context-manager protocol --
def module_snapshot(mod):
    """Module-level flags / counters / configuration by value, function bindings by identity, plus the patched pypdf names."""
    snap = {}
    for k, v in vars(mod).items():
        if k.startswith("__"):
            continue
        if isinstance(v, (bool, int, float, str, bytes, type(None))):
            snap[k] = repr(v)
        elif isinstance(v, (dict, list, set)) and len(v) < 64:
            try:
                snap[k] = repr(sorted(v.items()) if isinstance(v, dict) else v)[:400]
            except Exception:  # noqa
                snap[k] = f"{type(v).__name__}[{len(v)}]"
        elif hasattr(v, "__dataclass_fields__") and not isinstance(v, type):
            snap[k] = repr(v)[:400]
    st = global_state()
    st.pop("tmp_entries", None)
    st.pop("open_fds", None)
    snap.update({("<" + k + ">" if not k.startswith("setting:") else k): v for k, v in st.items()})
    return snap


def ctx_search(rel, qual):
    """A zero-argument context manager of the package: every way of leaving the with-body (normally, by an exception, by a
    BaseException, nested) must put the module state back, and a later use must behave like the first one."""
    if not rel or not qual or "." in qual:
        return None
    try:
        mod = importlib.import_module(rel[:-3].replace("/", "."))
        cm = getattr(mod, qual)
    except Exception:  # noqa
        return None
    import inspect
    try:
        if any(p.default is p.empty and p.kind in (p.POSITIONAL_ONLY, p.POSITIONAL_OR_KEYWORD, p.KEYWORD_ONLY) for p in inspect.signature(cm).parameters.values()):
            return None
    except (TypeError, ValueError):
        return None

    class Boom(Exception):
        pass

    class Hard(BaseException):
        pass

    def inside():
        return {k: v for k, v in module_snapshot(mod).items() if k.startswith("<")}

    def use(kind):
        try:
            with cm():
                seen = inside()
                if kind == "exception":
                    raise Boom()
                if kind == "base-exception":
                    raise Hard()
                if kind == "nested":
                    with cm():
                        pass
                if kind == "nested-exception":
                    try:
                        with cm():
                            raise Boom()
                    except Boom:
                        pass
        except (Boom, Hard):
            pass
        return seen

    def trial(kinds):
        before = module_snapshot(mod)
        first = None
        for k in kinds:
            seen = use(k)
            first = first if first is not None else seen
        after = module_snapshot(mod)
        seen_last = use("normal")
        return {"diff": sorted(k for k in set(before) | set(after) if before.get(k) != after.get(k)),
                "before": before, "after": after,
                "patched_first": first != {k: v for k, v in before.items() if k.startswith("<")},
                "patched_later": seen_last != {k: v for k, v in after.items() if k.startswith("<")}}
    for kinds in (["normal"], ["exception"], ["base-exception"], ["nested"], ["nested-exception"], ["exception", "normal"]):
        r = forked(lambda kinds=kinds: trial(kinds)).get("ok")
        if not r:
            continue
        if r["diff"]:
            k = r["diff"][0]
            return {"reproduced": True, "target": f"{rel}::{qual}", "inputs": {"history": [f"with {qual}(): <{x}>" for x in kinds]},
                    "expected": f"module state restored: {k} == {r['before'].get(k)}", "observed": f"{k} == {r['after'].get(k)} after the with-statement(s)",
                    "search": "context-manager protocol: normal / exception / BaseException / nested exits, module state before vs after"}
        if r["patched_first"] != r["patched_later"]:
            return {"reproduced": True, "target": f"{rel}::{qual}", "inputs": {"history": [f"with {qual}(): <{x}>" for x in kinds], "call": f"with {qual}(): <observe>"},
                    "expected": f"the with-body sees the patched functions exactly as in the first use (patched={r['patched_first']})", "observed": f"patched={r['patched_later']}",
                    "search": "context-manager protocol: a later use must behave like the first one"}
    return None


def run_schedule2(task_a, task_b, files, funcs, n, m, block_wait=BLOCK_WAIT):
    """A runs to its n-th line event in (files, funcs) and parks; B runs to its m-th and parks; A finishes; B finishes."""
    out, where = {}, {}
    a_parked, b_parked, a_done = threading.Event(), threading.Event(), threading.Event()
    cnt = {"A": 0, "B": 0}

    def mk_tracer(who, limit, parked, wait_for):
        def tracer(frame, event, arg):
            co = frame.f_code
            if co.co_filename not in files or (funcs and co.co_name not in funcs):
                return None

            def local(frame, event, arg):
                if event == "line":
                    cnt[who] += 1
                    if cnt[who] == limit:
                        where[who] = f"{os.path.basename(frame.f_code.co_filename)}:{frame.f_lineno} in {frame.f_code.co_name}"
                        parked.set()
                        wait_for.wait(block_wait)      # until the other thread parks / ends -- or is blocked on a lock this one holds
                return local
            return local
        return tracer

    def a():
        sys.settrace(mk_tracer("A", n, a_parked, b_parked))
        try:
            out["A"] = outcome(task_a)
        finally:
            sys.settrace(None)
            a_parked.set()
            a_done.set()

    def b():
        a_parked.wait(20)
        sys.settrace(mk_tracer("B", m, b_parked, a_done))
        try:
            out["B"] = outcome(task_b)
        finally:
            sys.settrace(None)
            b_parked.set()
    ta, tb = threading.Thread(target=a), threading.Thread(target=b)
    ta.start()
    tb.start()
    ta.join(40)
    tb.join(40)
    return out.get("A"), out.get("B"), cnt["A"], cnt["B"], where.get("A"), where.get("B")


def line_trace(task, files, funcs):
    """line numbers of the line events of `task` inside (files, funcs), in order"""
    seen = []

    def tracer(frame, event, arg):
        co = frame.f_code
        if co.co_filename not in files or (funcs and co.co_name not in funcs):
            return None

        def local(frame, event, arg):
            if event == "line":
                seen.append(frame.f_lineno)
            return local
        return local
    out = []

    def run():
        sys.settrace(tracer)
        try:
            outcome(task)
        finally:
            sys.settrace(None)
    t = threading.Thread(target=run)
    t.start()
    t.join(60)
    return list(seen)


def schedule2_search(rel, funcs, points=9, focus_lines=None):
    """Two threads, TWO context switches: A runs to its n-th line event inside (file, funcs) and parks, B runs to its m-th and
    parks, A finishes, B finishes -- for sampled (n, m).  Outcomes against the isolated baselines."""
    files = {os.path.join(REPO, rel)} if rel else set()
    funcs = set(funcs or ())
    for (la, ta, lb, tb, warm) in workloads(rel, funcs, focus_lines):
        def prep():
            if warm:
                warm()
        base_a = forked(lambda: (prep(), outcome(ta))[1]).get("ok")
        base_b = forked(lambda: (prep(), outcome(tb))[1]).get("ok")
        tot = forked(lambda: (prep(), run_schedule2(ta, tb, files, funcs, -1, -1))[1]).get("ok")
        if not tot or not tot[2] or not tot[3]:
            continue
        total_a, total_b = tot[2], tot[3]

        def sample(total):
            pts = {1, 2, 3, 5, 8, total, total - 1, total - 3} | {max(1, (k * total) // points) for k in range(1, points)}
            return sorted(p for p in pts if 1 <= p <= total)
        pairs = [(n, m) for n in sample(total_a) for m in sample(total_b)]
        pairs.sort(key=lambda p: abs(p[0] - total_a / 2) + abs(p[1] - total_b / 2))
        if focus_lines:
            # the save / set / restore section named by the obligation: EVERY pair of line events of the two threads that lie in the
            # window around the reported statements (first occurrences first), before the sampled pairs
            lo, hi = min(focus_lines) - 6, max(focus_lines) + 3
            tr_a = forked(lambda: (prep(), line_trace(ta, files, funcs))[1]).get("ok") or []
            tr_b = tr_a if tb is ta else (forked(lambda: (prep(), line_trace(tb, files, funcs))[1]).get("ok") or [])
            win_a = [i + 1 for i, ln in enumerate(tr_a) if lo <= ln <= hi][:14]
            win_b = [i + 1 for i, ln in enumerate(tr_b) if lo <= ln <= hi][:14]
            pairs = [(n, m) for n in win_a for m in win_b] + (pairs[:40] if win_a and win_b else pairs)
        for (n, m) in pairs:
            r = forked(lambda n=n, m=m: (prep(), run_schedule2(ta, tb, files, funcs, n, m, 1.0))[1], timeout=90).get("ok")
            if not r:
                continue
            oa, ob, _ca, _cb, wa, wb = r
            if oa != base_a or ob != base_b:
                who, exp, got = ("A", base_a, oa) if oa != base_a else ("B", base_b, ob)
                return {"reproduced": True, "target": rel,
                        "inputs": {"schedule": f"thread A: {la}, parked at its line event #{n} ({wa}); thread B: {lb}, parked at its line event #{m} ({wb}); A runs to the end; B runs to the end",
                                   "preemption_point": wa, "line_events": [n, m]},
                        "expected": f"thread {who}: the outcome of the same call alone: {json.dumps(exp)[:160]}", "observed": json.dumps(got)[:200],
                        "search": f"two threads, two context switches, {len(pairs)} sampled pairs of line events of the functions touching the name"}
    return None


def patcher_schedule_search(rel, qual, cap=24, helpers=None):
    """Two threads use the zero-argument context manager `qual` (with-body: nothing) with two context switches: A enters ... B
    enters ... A leaves ... B leaves, at every pair of line events of the context manager.  Afterwards the process-global state
    must be what it was (and what a sequential run leaves)."""
    try:
        mod = importlib.import_module(rel[:-3].replace("/", "."))
        cm = getattr(mod, qual)
    except Exception:  # noqa
        return None
    files = {os.path.join(REPO, rel)}
    funcs = {qual} | set(helpers or ())          # the context manager and the private helpers that patch / restore on its behalf

    def use():
        with cm():
            pass
        return "left"

    def trial(n, m):
        before = module_snapshot(mod)
        r = run_schedule2(use, use, files, funcs, n, m, 0.25)
        after = module_snapshot(mod)
        return {"r": r, "diff": sorted(k for k in set(before) | set(after) if before.get(k) != after.get(k))}
    seq = forked(lambda: trial(-1, -1)).get("ok")
    if not seq or seq["diff"]:
        return None
    total_a, total_b = seq["r"][2], seq["r"][3]
    pairs = [(n, m) for n in range(1, min(total_a, cap) + 1) for m in range(1, min(total_b, cap) + 1)]
    pairs.sort(key=lambda p: abs(p[0] - total_a / 2) + abs(p[1] - total_b / 2))          # around the yield first: both threads inside the with-body
    if True:
        for (n, m) in pairs:
            t = forked(lambda n=n, m=m: trial(n, m), timeout=90).get("ok")
            if t and t["diff"]:
                return {"reproduced": True, "target": f"{rel}::{qual}",
                        "inputs": {"schedule": f"thread A: `with {qual}(): pass`, parked at its line event #{n} ({t['r'][4]}); thread B: the same, parked at its line event #{m} "
                                               f"({t['r'][5]}); A runs to the end; B runs to the end", "preemption_point": t["r"][4], "line_events": [n, m]},
                        "expected": "afterwards every patched attribute is what it was before (as after a sequential run)",
                        "observed": f"{t['diff'][0]} differs: a wrapper installed by one thread was saved as `original` by the other and put back last",
                        "search": f"two threads, two context switches, every pair of the first {cap} line events of the context manager"}
    return None


# ------------------------------------------------------------------ fixtures --
def fixtures_check():
    import sharepoint2text
    repo = REPO
    files = sorted(f for f in glob.glob(repo + "/sharepoint2text/tests/resources/*/*") if os.path.isfile(f) and sharepoint2text.is_supported_file(f))
    files = [f for f in files if os.path.getsize(f) < 3_000_000]
    digest(sharepoint2text, files[0])
    for f in files:
        if f.endswith(".pdf"):
            digest(sharepoint2text, f)
            break
    before = global_state()
    seq1 = {f: digest(sharepoint2text, f) for f in files}
    seq2 = {f: digest(sharepoint2text, f) for f in reversed(files)}
    after = global_state()
    mism = state_diff(before, after)
    for f in files:
        if seq1[f] != seq2[f]:
            mism.append((f[len(repo) + 1:], "result depends on extraction order within one process"))
    sample = [f for f in files if f.endswith(".pdf")] + files[::9]
    for f in sample:
        p = subprocess.run([sys.executable, "-c", ISOLATED, repo, f], capture_output=True, text=True, timeout=300)
        iso = (p.stdout.strip().splitlines() or ["?"])[-1]
        if iso != seq1[f]:
            mism.append((f[len(repo) + 1:], "result in a long sequence differs from the isolated extraction"))
    return mism, len(files), len(sample)


def bounded_validation():
    """The BOUNDED native validation run on every check: generated-document histories (forked), (de)serialisation histories,
    then the fixture sequences (which use this very process, so they come last)."""
    mism = []
    for name, fn in (("generated", lambda: history_search(extra_note="")), ("serialisation", serial_search)):
        try:
            r = fn()
        except Exception as e:  # noqa
            r = None
            mism.append((name, "search crashed: " + repr(e)[:200]))
        if r:
            mism.append((r["target"], f"{r['observed']} (history: {r['inputs'].get('history')})"))
    mism.extend(assumed_model_facts())
    m2, nfiles, nsample = fixtures_check()
    return mism + m2, nfiles, nsample


def assumed_model_facts():
    """(round 7) Facts about third-party objects that symbolic contracts ASSUME, checked against the installed library: pypdf's
    `crypt_provider` is a tuple of strings (`permanent_patch_contract` reads its first item as "some string")."""
    out = []
    try:
        import pypdf._crypt_providers as providers
        cp = getattr(providers, "crypt_provider", None)
        if not (isinstance(cp, tuple) and cp and all(isinstance(x, str) for x in cp)):
            out.append(("pypdf._crypt_providers.crypt_provider", f"assumed to be a tuple of strings, is {cp!r}"))
    except Exception as e:  # noqa
        out.append(("pypdf._crypt_providers", "assumed importable: " + repr(e)[:160]))
    return out


def private_tmp():
    """Temp-file residue is counted in a directory nobody else writes to (the machine's /tmp is shared)."""
    d = tempfile.mkdtemp(prefix="c15_tmp_")
    os.environ["TMPDIR"] = d
    tempfile.tempdir = d
    return d


def find(req):
    import shutil
    d = private_tmp()
    try:
        r = _find(req)
        if isinstance(r, dict) and "hint" not in r:
            r["hint"] = req.get("extra")
        return r
    finally:
        tempfile.tempdir = None
        os.environ.pop("TMPDIR", None)
        shutil.rmtree(d, ignore_errors=True)


def preimport():
    """Import (never call) every module of the package and the heavy third-party ones, so that forked children start warm."""
    import pkgutil
    import sharepoint2text
    for m in pkgutil.walk_packages(sharepoint2text.__path__, "sharepoint2text."):
        if ".tests" in m.name or "sharepoint_io" in m.name:
            continue
        try:
            importlib.import_module(m.name)
        except Exception:  # noqa
            pass
    for name in ("pypdf", "pypdf._page", "olefile", "xlrd", "openpyxl", "defusedxml.ElementTree", "PIL.Image", "email.parser", "mailbox", "tarfile", "lzma", "bz2"):
        try:
            importlib.import_module(name)
        except Exception:  # noqa
            pass
    # every submodule of the third-party packages in use, so that their module-level settings exist in the "before" snapshot
    tops = sorted({n.split(".")[0] for n, m in list(sys.modules.items()) if "site-packages" in (getattr(m, "__file__", None) or "")})
    for top in tops:
        pkg = sys.modules.get(top)
        if pkg is None or not hasattr(pkg, "__path__") or top in ("pip", "setuptools", "pkg_resources", "_pytest", "pytest"):
            continue
        try:
            for m in pkgutil.walk_packages(pkg.__path__, top + "."):
                if any(part.startswith("test") or part in ("__main__", "conftest") for part in m.name.split(".")):
                    continue
                try:
                    importlib.import_module(m.name)
                except BaseException:  # noqa
                    pass
        except Exception:  # noqa
            pass


def _find(req):
    preimport()
    oid = req.get("obligation") or ""
    hint = req.get("extra") or {}
    if req.get("list_all"):
        mism, nfiles, _ = bounded_validation()
        return {"reproduced": bool(mism), "mismatches": mism, "fixtures": nfiles}
    if req.get("known"):
        return {"results": [replay_known(k) for k in req["known"]]}
    rel, funcs, writer = hint.get("rel"), hint.get("functions"), hint.get("writer")
    plan = []
    # function-level directed searches named by the obligation: context managers, accessors of new state
    fn_target = req.get("function") or ""
    cands = list(hint.get("context_managers") or [])
    if "::" in fn_target:
        cands.append(fn_target.split("::"))
    for (r_, q_) in cands:
        r = ctx_search(r_, q_)
        if r:
            r["found_by"] = "context-manager protocol"
            return r
    if "/schedule#" in oid:
        for (r_, q_) in hint.get("patchers") or []:
            r = patcher_schedule_search(r_, q_, helpers=hint.get("functions"))
            if r:
                r["found_by"] = "patcher schedule"
                return r
    for ns in hint.get("new_states") or []:
        for w in ns.get("writers") or []:
            r = memo_search(ns.get("rel"), w)
            if r:
                r["found_by"] = "memo"
                return r
    if ("/ensures#" in oid or oid.endswith("/raises") or "/out-of-subset" in oid) and "::" in fn_target:
        # an obligation of one function under symbolic contract: that function first (as a memo function, then under schedules)
        rel, writer = fn_target.split("::")[0], fn_target.split("::")[1]
        plan = ["memo", "schedule", "history"]
    elif "/memo#" in oid:
        plan = ["memo", "history", "serial"]
    elif "/schedule#" in oid:
        plan = ["schedule"]
    elif "/ownership#" in oid:
        plan = ["history", "serial", "schedule", "memo"]
    elif "serialization" in oid or "/frame#" in oid:
        plan = ["serial", "history", "memo", "schedule"]
    else:
        plan = ["history", "serial", "fixtures"]
    if "history" in plan:
        plan = ["limits"] + plan
    if hint.get("interleave") and "interleave" not in plan:
        plan = ["interleave"] + plan
    elif "history" in plan:
        plan = plan + ["interleave"]
    tried = []
    for step in plan:
        r = None
        try:
            if step == "interleave":
                r = interleave_search()
            elif step == "limits":
                r = limits_search()
            elif step == "memo":
                for w in ([writer] if writer else []) + list(hint.get("accessors") or []):
                    r = memo_search(rel, w)
                    if r:
                        break
            elif step == "history":
                r = history_search()
            elif step == "serial":
                r = serial_search()
            elif step == "schedule":
                if hint.get("two_switch") and hint.get("lines"):
                    r = schedule2_search(rel, funcs, focus_lines=hint.get("lines"))
                    if not r:
                        r = schedule_search(rel, funcs)
                else:
                    r = schedule_search(rel, funcs)
                    if not r and (hint.get("two_switch") or "is-set-around" in oid):
                        r = schedule2_search(rel, funcs, focus_lines=hint.get("lines"))
            elif step == "fixtures":
                mism, nfiles, nsample = fixtures_check()
                if mism:
                    r = {"reproduced": True, "target": mism[0][0], "inputs": {"history": "all fixtures forward then reverse in one process"},
                         "expected": "same results as in isolation; process-global state restored", "observed": mism[0][1], "all": mism[:8]}
        except Exception as e:  # noqa
            tried.append(f"{step}: crashed {e!r}"[:200])
            continue
        tried.append(step)
        if r:
            r["found_by"] = step
            return r
    return {"reproduced": False, "note": "no failing history / schedule found by: " + ", ".join(tried)}


def replay_known(k):
    w = k.get("witness") or {}
    if w.get("kind") == "schedule":
        r = schedule_search(w.get("rel"), w.get("functions"))
        return r or {"reproduced": False}
    return {"reproduced": False, "note": "unknown witness kind"}


def rerun(stored):
    return find({"obligation": stored.get("obligation"), "extra": stored.get("hint")})
