"""Native replay for C19 (runs under /venv/bin/python against the REAL omml_to_latex).

Builds OMML trees with xml.etree -- from a witness (stored tree description) or by small-scope
enumeration over the converter's element vocabulary with every optional child / attribute
present or absent -- and evaluates the executable contract:
  totality       no exception, a str comes back (also for None)
  determinism    two runs on freshly built equal trees agree
  balance        trees without literal braces give equally many '{' and '}'
  run order      every run text (mapped) occurs exactly once and in source order
  templates      output == the documented form, rendered by an independent reference
                 (own property children only; defaults when chr/begChr/endChr or its val is absent)
No z3 here.  A tree description is ["tag", {attr: value}, text_or_None, [children]].
"""
import itertools
import os
import random
from xml.etree import ElementTree as ET

NS = "http://schemas.openxmlformats.org/officeDocument/2006/math"


def q(n):
    return "{%s}%s" % (NS, n)


def build(d):
    tag, attrs, text, kids = d
    e = ET.Element(tag[1:] if tag.startswith("!") else q(tag), {q(k): v for k, v in attrs.items()})
    e.text = text
    for k in kids:
        e.append(build(k))
    return e


def xml_of(d):
    ET.register_namespace("m", NS)
    return ET.tostring(build(d), encoding="unicode")


def E(tag, *kids, text=None, **attrs):
    return [tag, dict(attrs), text, list(kids)]


def run(text):
    return E("r", E("t", text=text))


def run_pr(text):
    return E("r", E("rPr", E("sty", val="p")), E("t", text=text))


# ---------------------------------------------------------------- reference renderer --
SKIP = {"rPr", "fPr", "radPr", "ctrlPr", "oMathParaPr", "degHide", "type", "rFonts", "i", "color", "sz", "szCs", "jc",
        "solidFill", "srgbClr", "latin"}
SYMS = {"α": "\\alpha", "π": "\\pi", "∞": "\\infty", "ℝ": "\\mathbb{R}", "Σ": "\\Sigma", "≤": "\\leq"}
NARY = {"∑": "\\sum", "∏": "\\prod", "∫": "\\int", "∬": "\\iint", "∭": "\\iiint"}
ACC = {"̂": "\\hat", "̃": "\\tilde", "̄": "\\bar", "⃗": "\\vec", "̇": "\\dot"}
FUNCS = ("sin", "cos", "tan", "log", "ln", "lim", "exp", "max", "min")
CLOSER = {"(": ")", "[": "]", "{": "}"}


def local(tag):
    return tag.split("}")[-1]


def kid(e, name):
    for c in e:
        if c.tag == q(name):
            return c
    return None


def own_val(e, pr, ch, default):
    """val of the element's own property child pr/ch (first in document order), else default"""
    for p in e:
        if p.tag == q(pr):
            for c in p:
                if c.tag == q(ch):
                    v = c.get(q("val"))
                    return default if v is None else v
    return default


ON, OFF = ("1", "true", "on"), ("0", "false", "off")       # ST_OnOff spellings


def onoff(e, pr, name):
    """state of the element's own on/off property pr/name: None = absent or switched off (the operand is visible: it MUST
    be rendered); "on" = switched on or an unrecognised spelling (a converter may render the operand or hide it)"""
    for p in e:
        if p.tag == q(pr):
            for c in p:
                if c.tag == q(name):
                    v = c.get(q("val"))
                    if v is not None and v.strip().lower() in OFF:
                        return None
                    return "on"
    return None


def onoff_desc(d, pr, name):
    for p in d[3]:
        if p[0] == pr:
            for c in p[3]:
                if c[0] == name:
                    v = c[1].get("val")
                    return None if (v is not None and v.strip().lower() in OFF) else "on"
    return None


class Ref:
    """documented rendering; `conv` maps run text (the real symbol table is used for the text mapping
    when handed in, the local table otherwise); close_first: a pending radical is closed before a new
    malformed one opens"""

    def __init__(self, conv, close_first=True, hide_on=False):
        # hide_on: an operand whose hide property (m:subHide, m:supHide, m:degHide) is switched ON is left out
        self.conv, self.close_first, self.pending, self.hide_on = conv, close_first, None, hide_on

    def render(self, root):
        if root is None:
            return ""
        parts = [p for p in (self.pe(c) for c in root) if p]
        if self.pending:
            parts.append("}")
        return "".join(parts)

    def pe(self, e):
        if e is None:
            return ""
        tag = local(e.tag)
        if tag in SKIP:
            return ""
        P = lambda n: self.pe(kid(e, n))
        if tag == "t":
            cv = self.conv(e.text or "")
            if self.pending and self.pending in cv:
                k = cv.index(self.pending)
                self.pending = None
                return cv[:k] + "}" + cv[k + 1:]
            return cv
        if tag == "f":
            a = P("num")
            b = P("den")
            return "\\frac{" + a + "}{" + b + "}"
        if tag == "sSup":
            a = P("e")
            b = P("sup")
            return a + "^{" + b + "}"
        if tag == "sSub":
            a = P("e")
            b = P("sub")
            return a + "_{" + b + "}"
        if tag == "sSubSup":
            a = P("e")
            b = P("sub")
            c = P("sup")
            return a + "_{" + b + "}^{" + c + "}"
        if tag == "rad":
            ct = P("e")
            dg = "" if (self.hide_on and onoff(e, "radPr", "degHide")) else P("deg").strip()
            head = "\\sqrt[" + dg + "]{" if dg else "\\sqrt{"
            if ct.strip() in CLOSER:
                pre = "}" if (self.pending and self.close_first) else ""
                self.pending = CLOSER[ct.strip()]
                return pre + head
            return head + ct + "}"
        if tag == "nary":
            o = own_val(e, "naryPr", "chr", "∑")
            op = NARY.get(o, self.conv(o))
            sub = "" if (self.hide_on and onoff(e, "naryPr", "subHide")) else P("sub")
            sup = "" if (self.hide_on and onoff(e, "naryPr", "supHide")) else P("sup")
            ct = P("e")
            return op + ("_{" + sub + "}" if sub.strip() else "") + ("^{" + sup + "}" if sup.strip() else "") + " " + ct
        if tag == "d":
            left, right = own_val(e, "dPr", "begChr", "("), own_val(e, "dPr", "endChr", ")")
            return left + ", ".join(self.pe(c) for c in e if c.tag == q("e")) + right
        if tag == "m" and kid(e, "mr") is not None:
            rows = [" & ".join(self.pe(c) for c in mr if c.tag == q("e")) for mr in e if mr.tag == q("mr")]
            return "\\begin{matrix}" + " \\\\ ".join(rows) + "\\end{matrix}"
        if tag == "func":
            fn = P("fName")
            ct = P("e")
            return ("\\" + fn.strip() if fn.strip() in FUNCS else fn) + "{" + ct + "}"
        if tag == "bar":
            # a bar placed below the base (m:barPr/m:pos = bot) may be rendered as an underline (optional feature variant)
            below = self.hide_on and (own_val(e, "barPr", "pos", "top") or "").strip().lower() == "bot"
            return ("\\underline{" if below else "\\overline{") + P("e") + "}"
        if tag == "acc":
            a = own_val(e, "accPr", "chr", "̂")
            return ACC.get(a, "\\hat") + "{" + P("e") + "}"
        return "".join(p for p in (self.pe(c) for c in e) if p)


# ------------------------------------------------------------------------ enumeration --
def opt(*alts):
    """alternatives for an optional child: absent or each alternative"""
    return [None] + list(alts)


def mk(tag, *slots):
    """all elements `tag` whose children are one choice per slot (None = absent)"""
    for combo in itertools.product(*slots):
        yield E(tag, *[c for c in combo if c is not None])


def chr_alts(name, vals):
    return [E(name)] + [E(name, val=v) for v in vals]


def structures(ops, only=None):
    """every structural element of the vocabulary, each optional child/attribute present or absent,
    operands drawn from `ops` (lists of element descriptions wrapped into the operand element);
    only: just the structures with that tag (same elements, same order, the others are not built)"""
    for s_ in _structures(ops, (lambda t: True) if only is None else (lambda t: t == only)):
        if only is None or s_[0] == only:
            yield s_


def _structures(ops, want):
    def W(name):
        return opt(*[E(name, *o) for o in ops])
    if want("f"):
        yield from mk("f", opt(E("fPr", E("type", val="bar"))), W("num"), W("den"))
    if want("sSup"):
        yield from mk("sSup", W("e"), W("sup"))
    if want("sSub"):
        yield from mk("sSub", W("e"), W("sub"))
    if want("sSubSup"):
        yield from mk("sSubSup", W("e"), W("sub"), W("sup"))
    if want("rad"):
        yield from mk("rad", opt(E("radPr", E("degHide", val="1"))), W("deg"), W("e"))
    if want("nary"):
        npr = [None, E("naryPr")] + [E("naryPr", c) for c in chr_alts("chr", ["∫", "∏", "", "α", "∐"])]
        yield from mk("nary", npr, W("sub"), W("sup"), W("e"))
    if want("d"):
        dpr = [None, E("dPr")] + [E("dPr", *[x for x in (b, e) if x is not None])
                                   for b in opt(*chr_alts("begChr", ["[", "", "|"])) for e in opt(*chr_alts("endChr", ["]", ""]))
                                   if b is not None or e is not None]
        for pr in dpr:
            for n in (0, 1, 2):
                for es in itertools.product([E("e", *o) for o in ops[:3]], repeat=n):
                    yield E("d", *([pr] if pr is not None else []), *es)
    if want("m"):
        for rows in ([], [[0]], [[0, 1]], [[0], [1]], [[0, 1], [1, 0]], [[]]):
            yield E("m", *[E("mr", *[E("e", *ops[i % len(ops)]) for i in r]) for r in rows])
        for j in range(2, len(ops)):                 # every operand option sits in a matrix cell at least once
            yield E("m", E("mr", E("e", *ops[j])))
            yield E("m", E("mPr", E("mcs")), E("mr", E("e", run("p")), E("e", *ops[j])), E("mr", E("e", *ops[j - 1]), E("e", run("q"))))
    yield from flagged()
    yield from with_properties()
    if want("func"):
        yield from mk("func", opt(E("fName", run("sin")), E("fName", run(" lim ")), E("fName", run("f")), E("fName")), W("e"))
    if want("bar"):
        yield from mk("bar", opt(E("barPr", E("pos", val="top"))), W("e"))
    if want("acc"):
        apr = [None, E("accPr")] + [E("accPr", c) for c in chr_alts("chr", ["̃", "⃗", "x", ""])]
        yield from mk("acc", apr, W("e"))


FLAG_VALS = [None, "1", "0", "on", "off", "true", "false", "Off ", "TRUE"]


def flagged():
    """hide / on-off properties (ST_OnOff) in every spelling, with the operand they govern present, blank or absent"""
    def fl(name, v):
        return E(name) if v is None else E(name, val=v)
    for v in FLAG_VALS:
        for limit in ([run("i")], [run(" ")], None):
            kids = lambda nm: [E(nm, *limit)] if limit is not None else []
            yield E("nary", E("naryPr", fl("subHide", v)), *kids("sub"), E("sup", run("n")), E("e", run("x")))
            yield E("nary", E("naryPr", E("chr", val="∫"), fl("supHide", v)), E("sub", run("a")), *kids("sup"), E("e", run("x")))
            yield E("rad", E("radPr", fl("degHide", v)), *kids("deg"), E("e", run("x")))
        yield E("nary", E("naryPr", fl("subHide", v), fl("supHide", v), E("limLoc", val="undOvr"), E("grow", val="1")),
                E("sub", run("i")), E("sup", run("n")), E("e", run("x")))
        yield E("f", E("fPr", E("type", val="noBar")), E("num", run("a")), E("den", run("b")))
        yield E("r", E("rPr", fl("nor", v), E("sty", val="b")), E("t", text="w"))


# property children of every structure: each with its m:val absent and with sample values (schema enumerations / on-off)
PROPS = {
    "f": ("fPr", [("type", ["bar", "noBar", "lin", "skw"])]),
    "rad": ("radPr", [("degHide", ["1", "off"])]),
    "nary": ("naryPr", [("chr", ["∫"]), ("limLoc", ["undOvr", "subSup"]), ("grow", ["1", "0"]), ("subHide", ["off"]), ("supHide", ["0"])]),
    "d": ("dPr", [("begChr", ["["]), ("sepChr", ["|"]), ("endChr", ["]"]), ("grow", ["on"]), ("shp", ["centered", "match"])]),
    "m": ("mPr", [("baseJc", ["center", "top", "bot"]), ("plcHide", ["1"]), ("rSpRule", ["0"]), ("cGp", ["120"])]),
    "func": ("funcPr", [("ctrlPr", [])]),
    "bar": ("barPr", [("pos", ["top", "bot", "BOT"])]),
    "acc": ("accPr", [("chr", ["̃"])]),
    "sSup": ("sSupPr", [("ctrlPr", [])]),
    "sSub": ("sSubPr", [("ctrlPr", [])]),
    "sSubSup": ("sSubSupPr", [("alnScr", ["1"])]),
    "box": ("boxPr", [("opEmu", ["1"]), ("noBreak", ["0"]), ("diff", ["on"])]),
    "groupChr": ("groupChrPr", [("chr", ["⏟"]), ("pos", ["bot", "top"]), ("vertJc", ["top"])]),
}
OPERANDS = {"f": ("num", "den"), "rad": ("deg", "e"), "nary": ("sub", "sup", "e"), "d": ("e",), "func": ("fName", "e"), "bar": ("e",),
            "acc": ("e",), "sSup": ("e", "sup"), "sSub": ("e", "sub"), "sSubSup": ("e", "sub", "sup"), "box": ("e",), "groupChr": ("e",)}


def with_properties():
    """every structure with plain operands and ONE property child: without m:val, and with each sample value"""
    for tag, (pr, children) in PROPS.items():
        ops = [E("mr", E("e", run("x")), E("e", run("y")))] if tag == "m" else \
            [E(n, run("sin" if n == "fName" else "x")) for n in OPERANDS[tag]]
        yield E(tag, E(pr), *ops)
        for (name, vals) in children:
            for v in [None] + list(vals):
                yield E(tag, E(pr, E(name) if v is None else E(name, val=v)), *ops)


LEAF_TEXTS = ["x", "(", ")", "a)b", "[", "]", " ", "", None, "α", "ℝ≤∞", "( ", "y]", "α)x", "a≤b]c"]


def leaves():
    for t in LEAF_TEXTS:
        yield run(t)
    yield run_pr("z")
    yield E("r")
    yield E("t", text="w")


def scope(seed=0, budget=None):
    """the small scope, smallest trees first: descriptions of m:oMath roots"""
    L = list(leaves())
    ops1 = [[], [run("x")], [run("(")], [run("a)b")], [run(" ")], [run("α")], [run("x"), run(")")]]
    d1 = list(structures(ops1))
    yield E("oMath")
    for x in L:
        yield E("oMath", x)
    for s in d1:
        yield E("oMath", s)
    # pending-state interactions: a malformed radical followed by anything of depth <= 1
    mal = [E("rad", E("e", run("("))), E("rad", E("deg", run("3")), E("e", run("["))), E("rad", E("deg", run("a)")), E("e", run("( ")))]
    reps = representatives(d1)
    for a in mal:
        for b in L + reps + mal:
            yield E("oMath", a, b)
            yield E("oMath", a, b, run("q)r]"))
    # depth 2: every slot of every structure filled with a representative structure
    ops2 = [[r] for r in RICH] + [[RICH[0], run(")")], [mal[0]]]
    for s in structures(ops2):
        yield E("oMath", s)
        yield E("oMath", s, run("u)v"))
    # nesting: every structure inside every operand slot / matrix cell of every structure (also of itself), containers outside
    # the vocabulary, foreign wrapper elements
    for s in one_slot(RICH + RICH2):
        yield E("oMath", s)
    # oMathPara wrapper and property elements interleaved
    for s in reps:
        yield E("oMathPara", E("oMathParaPr", E("jc", val="center")), E("oMath", E("ctrlPr"), s, E("ctrlPr")))
    # deep nesting (level-dependent behaviour)
    for s in towers():
        yield E("oMath", s)
        yield E("oMath", run("p"), s, run("q"))
    # random deeper trees
    rnd = random.Random(seed)
    for _ in range(400 if budget is None else budget):
        yield E("oMath", *[rand_tree(rnd, 3) for _ in range(rnd.randint(1, 3))])


TOWER_DEPTHS = (8, 16, 32, 64)


def tower_levels():
    """(tag, builder(inner)) for every structure with ONE operand slot holding the next level and plain runs in the others"""
    x = lambda t="x": run(t)
    return [
        ("f", lambda i: E("f", E("num", i), E("den", x("b")))),
        ("f", lambda i: E("f", E("num", x("α")), E("den", i))),
        ("sSup", lambda i: E("sSup", E("e", x()), E("sup", i))),
        ("sSub", lambda i: E("sSub", E("e", i), E("sub", x("k")))),
        ("sSubSup", lambda i: E("sSubSup", E("e", x()), E("sub", i), E("sup", x("2")))),
        ("rad", lambda i: E("rad", E("radPr", E("degHide", val="1")), E("deg"), E("e", i))),
        ("rad", lambda i: E("rad", E("deg", i), E("e", x()))),
        ("nary", lambda i: E("nary", E("naryPr", E("chr", val="∫")), E("sub", x("i")), E("sup", x("n")), E("e", i))),
        ("d", lambda i: E("d", E("dPr", E("begChr", val="["), E("endChr", val="]")), E("e", i))),
        ("m", lambda i: E("m", E("mr", E("e", i), E("e", x("v"))))),
        ("func", lambda i: E("func", E("fName", x("sin")), E("e", i))),
        ("bar", lambda i: E("bar", E("e", i))),
        ("acc", lambda i: E("acc", E("accPr", E("chr", val="̃")), E("e", i))),
        ("box", lambda i: E("box", E("boxPr"), E("e", x("g"), i))),
    ]


def towers(depths=TOWER_DEPTHS):
    """nesting many levels deep (the property quantifies over ALL trees; behaviour that depends on the nesting level --
    recursion guards, depth budgets, level counters -- only shows beyond the depth of authored examples): every structure
    nested in its own operand slot, and all structures in rotation, `depth` levels, a skipped property element and a run
    beside the innermost one.  Depths stay far below the interpreter's recursion limit (3 frames per level)."""
    lv = tower_levels()
    for depth in depths:
        for k in range(len(lv) + 1):
            inner = E("r", E("rPr", E("sty", val="p")), E("t", text="z"))
            for j in range(depth):
                tag, mkl = lv[k] if k < len(lv) else lv[(depth - 1 - j) % len(lv)]
                inner = mkl(inner)
            yield inner


def representatives(d1):
    """one fully populated and one empty instance per tag, plus the property-lacking variants"""
    by = {}
    for s in d1:
        by.setdefault(s[0], []).append(s)
    out = []
    for tag, lst in by.items():
        lst = sorted(lst, key=lambda s: len(repr(s)))
        out += [lst[0], lst[-1], lst[len(lst) // 2]]
    return out


def rand_tree(rnd, depth):
    """a random element of the vocabulary (optional children / properties present or absent at random)"""
    if depth == 0 or rnd.random() < 0.25:
        return run(rnd.choice(LEAF_TEXTS))

    def operand(name, p=0.8):
        return [E(name, *[rand_tree(rnd, depth - 1) for _ in range(rnd.randint(0, 2))])] if rnd.random() < p else []

    def flag(name):
        v = rnd.choice(FLAG_VALS)
        return E(name) if v is None else E(name, val=v)

    def maybe(x, p=0.5):
        return [x] if rnd.random() < p else []
    tag = rnd.choice(["f", "sSup", "sSub", "sSubSup", "rad", "nary", "d", "m", "func", "bar", "acc", "box", "eqArr", "limLow"])
    if tag == "f":
        kids = maybe(E("fPr", E("type", val="bar"))) + operand("num") + operand("den")
    elif tag in ("sSup", "sSub", "sSubSup"):
        kids = operand("e") + (operand("sub") if tag != "sSup" else []) + (operand("sup") if tag != "sSub" else [])
    elif tag == "rad":
        kids = maybe(E("radPr", flag("degHide"))) + operand("deg", 0.5) + operand("e")
    elif tag == "nary":
        pr = maybe(E("chr", val=rnd.choice(["∫", "∏", "", "α"])), 0.6) + maybe(flag("subHide"), 0.3) + maybe(flag("supHide"), 0.3)
        kids = maybe(E("naryPr", *pr), 0.7) + operand("sub") + operand("sup") + operand("e")
    elif tag == "d":
        pr = maybe(E("begChr", val=rnd.choice(["[", "", "|"])), 0.5) + maybe(E("endChr", val=rnd.choice(["]", ""])), 0.5)
        kids = maybe(E("dPr", *pr), 0.6) + [k for _ in range(rnd.randint(0, 3)) for k in operand("e", 1.0)]
    elif tag == "m":
        kids = [E("mr", *[k for _ in range(rnd.randint(0, 2)) for k in operand("e", 1.0)]) for _ in range(rnd.randint(0, 2))]
    elif tag == "func":
        kids = maybe(E("fName", run(rnd.choice(["sin", " lim ", "f"]))), 0.8) + operand("e")
    elif tag == "acc":
        kids = maybe(E("accPr", E("chr", val=rnd.choice(["̃", "⃗", "x", ""]))), 0.6) + operand("e")
    elif tag == "limLow":
        kids = operand("e") + operand("lim")
    else:
        kids = operand("e") + (operand("e") if tag == "eqArr" else [])
    return E(tag, *kids)


# ------------------------------------------------------------------------------ checks --
def texts_attrs(d):
    tag, attrs, text, kids = d
    yield text or ""
    yield from attrs.values()
    for k in kids:
        yield from texts_attrs(k)


def brace_free(d):
    return not any("{" in s or "}" in s for s in texts_attrs(d))


def has_tag(d, tag):
    return d[0] == tag or any(has_tag(k, tag) for k in d[3])


def relabel(d, counter):
    """copy with every non-blank run text that has no bracket replaced by a unique marker"""
    tag, attrs, text, kids = d
    if tag == "t" and text and text.strip() and not any(ch in text for ch in "()[]{}"):
        text = "‹%d›" % next(counter)
    return [tag, attrs, text, [relabel(k, counter) for k in kids]]


HIDE = {("rad", "deg"): ("radPr", "degHide"), ("nary", "sub"): ("naryPr", "subHide"), ("nary", "sup"): ("naryPr", "supHide")}


def rendered_ts(d, out, optional=None):
    """run texts the documented forms render, in source order (schema-shaped trees)"""
    tag, attrs, text, kids = d
    if tag in SKIP:
        return
    if tag == "t":
        if text and "‹" in text:
            out.append(text)
        return
    named = {"f": ("num", "den"), "sSup": ("e", "sup"), "sSub": ("e", "sub"), "sSubSup": ("e", "sub", "sup"),
             "rad": ("deg", "e"), "nary": ("sub", "sup", "e"), "func": ("fName", "e"), "bar": ("e",), "acc": ("e",)}
    if tag in named:
        for nm in named[tag]:
            for k in kids:
                if k[0] == nm:
                    if (tag, nm) in HIDE and onoff_desc(d, *HIDE[(tag, nm)]) and optional is not None:
                        rendered_ts(k, optional, optional)        # may be left out (hide property switched on)
                    else:
                        rendered_ts(k, out, optional)
                    break
        return
    if tag == "d":
        for k in kids:
            if k[0] == "e":
                rendered_ts(k, out, optional)
        return
    if tag == "m" and any(k[0] == "mr" for k in kids):
        for k in kids:
            if k[0] == "mr":
                for c in k[3]:
                    if c[0] == "e":
                        rendered_ts(c, out, optional)
        return
    for k in kids:
        rendered_ts(k, out, optional)


def without(d, tag):
    """copy with every subtree rooted at `tag` replaced by a plain run"""
    if d[0] == tag:
        return run("k")
    return [d[0], d[1], d[2], [without(k, tag) for k in d[3]]]


def matches_reference(fn, conv, d):
    try:
        got = fn(build(d))
    except Exception:  # noqa
        return True, None, None        # an exception is the totality check's business
    a = Ref(conv, True).render(build(d))
    return any(got == Ref(conv, cf, ho).render(build(d)) for cf in (True, False) for ho in (False, True)), a, got


def check(fn, conv, d, which):
    """-> None or (what, expected, observed)"""
    try:
        got = fn(build(d))
    except Exception as e:  # noqa
        if which in ("total", "all"):
            return ("total", "a str, no exception", f"{type(e).__name__}: {e}")
        return None
    if not isinstance(got, str):
        return ("total", "str", type(got).__name__)
    if which in ("determinism", "all"):
        again = fn(build(d))
        if again != got:
            return ("determinism", got, again)
    if which in ("balance", "all") and brace_free(d):
        if got.count("{") != got.count("}"):
            return ("balance", "equally many '{' and '}'", got)
    if which in ("order", "all"):
        import itertools as _it
        d2 = relabel(d, _it.count())
        try:
            g2 = fn(build(d2))
        except Exception:  # noqa
            g2 = None
        if g2 is not None:
            want, maybe = [], []
            rendered_ts(d2, want, maybe)
            pos = [g2.find(t) for t in want]
            cnt = [g2.count(t) for t in want]
            if any(c != 1 for c in cnt) or pos != sorted(pos) or any(g2.count(t) > 1 for t in maybe):
                return ("order", f"each of {want} exactly once, in this order", g2)
    if which.startswith("template") or which == "all":
        tag = which.split(".", 1)[1] if "." in which else None
        if tag is None:
            ok, a, _g = matches_reference(fn, conv, d)
            if not ok:
                return ("template", a, got)
    return None


class OneLevel(Ref):
    """the documented form of ONE element, its operands rendered by the real converter (this is the
    contract clause `result == template(results of the recursive calls)`; operands are bracket-free, so
    the pending-radical state stays None and rendering is compositional)"""

    def __init__(self, conv, fn, top):
        super().__init__(conv, True)
        self.fn, self.top = fn, top

    def pe(self, e):
        if e is self.top or e is None:
            return super().pe(e)
        wrap = ET.Element(q("oMath"))
        wrap.append(e)
        return self.fn(wrap)


FREE_OPS = [[], [run("x")], [run(" ")], [run("α")], [run("x"), run_pr("y")]]


RICH = [E("acc", E("accPr", E("chr", val="̃")), E("e", run("x"))),
        E("nary", E("naryPr", E("chr", val="∫")), E("sub", run("i")), E("e", run("x"))),
        E("d", E("dPr", E("begChr", val="["), E("endChr", val="]")), E("e", run("x"))),
        E("f", E("num", run("a")), E("den", run("b"))),
        E("rad", E("deg", run("3")), E("e", run("x"))),
        E("func", E("fName", run("sin")), E("e", run("x")))]
# every tag nests in every operand slot (also in itself): the rest of the vocabulary, containers the converter does not know
# (rendered as the concatenation of their children) and foreign wrappers (tracked changes, alternate content)
RICH2 = [E("m", E("mr", E("e", run("u")), E("e", run("v"))), E("mr", E("e", run("w")))),
         E("sSup", E("e", run("b")), E("sup", run("2"))),
         E("sSub", E("e", run("b")), E("sub", run("k"))),
         E("sSubSup", E("e", run("b")), E("sub", run("k")), E("sup", run("2"))),
         E("bar", E("e", run("z"))),
         E("box", E("boxPr"), E("e", run("g"), run("h"))),
         E("limLow", E("e", run("lim")), E("lim", run("n"))),
         E("eqArr", E("e", run("r1")), E("e", run("r2"))),
         E("sPre", E("sub", run("1")), E("sup", run("2")), E("e", run("X"))),
         ["!{urn:w}ins", {}, None, [run("t1"), E("f", E("num", run("c")), E("den", run("d")))]],
         ["!{urn:mc}AlternateContent", {}, None, [["!{urn:mc}Choice", {}, None, [run("c1")]], ["!{urn:mc}Fallback", {}, None, [run("c2")]]]]]


def one_slot(extra):
    """every structure with plain operands, one slot at a time replaced by each rich operand"""
    plain = [[run("x")]]
    for base in structures(plain):
        if not any(k[0] in ("num", "den", "e", "sub", "sup", "deg", "fName", "mr") for k in base[3]):
            continue
        slots = [(i, k) for i, k in enumerate(base[3]) if k[0] in ("num", "den", "e", "sub", "sup", "deg", "fName")]
        cells = [(i, j, c) for i, k in enumerate(base[3]) if k[0] == "mr" for j, c in enumerate(k[3]) if c[0] == "e"]
        for r in extra:
            for (i, k) in slots:
                kids = list(base[3])
                kids[i] = [k[0], k[1], k[2], [r]]
                yield [base[0], base[1], base[2], kids]
            for (i, j, c) in cells:
                kids = list(base[3])
                row = list(kids[i][3])
                row[j] = [c[0], c[1], c[2], [r]]
                kids[i] = [kids[i][0], kids[i][1], kids[i][2], row]
                yield [base[0], base[1], base[2], kids]


def template_scope(tag):
    if tag == "t":
        for t in LEAF_TEXTS:
            yield E("t", text=t)
        return
    d1 = [s for s in structures(FREE_OPS)]
    yield from (s for s in d1 if s[0] == tag)
    yield from (s for s in one_slot(RICH + RICH2) if s[0] == tag)
    yield from (s for s in towers() if s[0] == tag)        # (few; before the large product below)
    reps = RICH + representatives(d1)
    yield from structures([[r] for r in reps], only=tag)


def template_check(fn, conv, s):
    try:
        got = fn(build(E("oMath", s)))
        top = build(s)
        want = OneLevel(conv, fn, top).pe(top)
        hidden = OneLevel(conv, fn, top)
        hidden.hide_on = True
        want_h = hidden.pe(top)
    except Exception:  # noqa   (totality is checked separately)
        return None
    if got != want and got != want_h:
        return ("template." + s[0], want, got)
    return None


def validate_model(trees):
    """validation (not proof) of the ASSUMED ElementTree / str model of contracts/C19.py against the real
    library on the enumerated trees; -> None or a description of the first disagreement"""
    names = ["e", "num", "chr", "naryPr", "dPr", "begChr", "t", "mr"]
    for d in trees:
        root = build(d)
        parent = {c: p for p in root.iter() for c in p}
        for e in root.iter():
            kids = list(e)
            for a in names:
                got = e.find(q(a))
                want = next((c for c in kids if c.tag == q(a)), None)
                if got is not want:
                    return f"find('{a}') is not the first child with that tag"
                if e.findall(q(a)) != [c for c in kids if c.tag == q(a)]:
                    return f"findall('{a}') is not the {a} children in order"
                got = e.find(".//" + q(a))
                if got is not None:
                    anc, up = False, parent.get(got)
                    while up is not None:
                        anc = anc or up is e
                        up = parent.get(up)
                    if not anc or got.tag != q(a) or got is e:
                        return f"find('.//{a}') is not a proper descendant with that tag"
                elif any(c.tag == q(a) for c in e.iter() if c is not e):
                    return f"find('.//{a}') is None although a descendant exists"
                for b in names[:4]:
                    got = e.find(q(a) + "/" + q(b))
                    want = next((g for c in kids if c.tag == q(a) for g in c if g.tag == q(b)), None)
                    if got is not want:
                        return f"find('{a}/{b}') is not the first {b} child of an {a} child"
            if e.get(q("no-such-attribute")) is not None or e.get(q("no-such-attribute"), "dflt") != "dflt":
                return "get() of a missing attribute"
            if not isinstance(e.tag, str) or not (e.text is None or isinstance(e.text, str)):
                return "tag/text kinds"
    cnt = lambda s: (s.count("{"), s.count("}"), sum(1 for ch in s if not ch.isspace()))
    for s_ in ["", " {a} ", "\t(\n", " \u00a0x\u2003", "}{ "]:
        if cnt(s_.strip()) != cnt(s_):
            return "strip() changes the brace / non-space counts"
        for sep in (", ", " & ", ""):
            lst = [s_, "x", s_]
            j = sep.join(lst)
            if any(cnt(j)[k] != sum(cnt(x)[k] for x in lst) + 2 * cnt(sep)[k] for k in range(3)):
                return "join() counts"
        if len(s_.split("}")) < 1:
            return "split()"
    return None


def greek_check(m):
    """the symbol table and the text mapping, natively: every key alone and inside a run"""
    conv, fn = m.convert_greek_and_symbols, m.omml_to_latex
    for k, v in m.GREEK_TO_LATEX.items():
        for text in (k, "a" + k + "b", k + k):
            try:
                got = conv(text)
            except Exception as e:  # noqa
                return ("total", "a str", f"{type(e).__name__}: {e}", text)
            want = text.replace(k, v)
            if got != want:
                return ("mapping", want, got, text)
            out = fn(build(E("oMath", run(text))))
            if "{" not in text and "}" not in text and out.count("{") != out.count("}"):
                return ("balance", "equally many '{' and '}'", out, text)
            if out.strip() in ("{", "(", "["):
                return ("lone-bracket", "a visible symbol", out, text)
    return None


# ---------------------------------------------------------------------- call sites --
def wrapper(tag, *kids):
    """a non-math container element (shape / paragraph) -- description with a full Clark tag"""
    return ["!" + tag, {}, None, list(kids)]


def build_any(d):
    tag, attrs, text, kids = d
    e = ET.Element(tag[1:] if tag.startswith("!") else q(tag), {q(k): v for k, v in attrs.items()})
    e.text = text
    for k in kids:
        e.append(build_any(k))
    return e


def site_scope():
    """containers with inline / display / blank / nested formulas, every formula with its own text"""
    import itertools as it
    n = it.count()

    def om(blank=False):
        return E("oMath") if blank else E("oMath", run("f%d" % next(n)))

    def blocks():
        yield [om()]
        yield [om(blank=True)]
        yield [E("oMathPara", om())]
        yield [E("oMathPara", E("oMathParaPr", E("jc", val="center")), om())]
        yield [E("oMathPara")]
        yield [E("oMathPara", om(), om())]
        yield [E("oMathPara", om(blank=True), om())]
        yield [wrapper("{urn:a14}m", om())]
        yield [wrapper("{urn:a14}m", E("oMathPara", om()))]
        yield [wrapper("{urn:a}r", E("t", text="plain"))]
        yield [E("oMathPara", wrapper("{urn:x}box", om()))]          # an oMath that is not a child of the oMathPara
        same = lambda: E("oMath", run("same"))                      # the same equation more than once in one container
        yield [same(), same()]
        yield [E("oMathPara", same()), same()]
        yield [E("oMathPara", same()), E("oMathPara", same())]
        yield [wrapper("{urn:mc}AlternateContent", wrapper("{urn:mc}Choice", same()), wrapper("{urn:mc}Fallback", same()))]
    W = "{urn:p}txBody"
    yield wrapper(W)
    for a in blocks():
        yield wrapper(W, *a)
    for a in blocks():
        for b in blocks():
            yield wrapper(W, *(a + b))
            yield wrapper(W, wrapper("{urn:a}p", *a), wrapper("{urn:a}p", *b))
    for a in blocks():
        for b in blocks():
            for c in blocks():
                yield wrapper(W, *(a + b), wrapper("{urn:a}p", *c))
    # the container itself is a formula element
    yield E("oMath", run("g"))
    yield E("oMathPara", E("oMath", run("h")), E("oMath", run("i")))


def site_expected(root, latex):
    """documented result: display equations (first oMath child of every oMathPara, document order) first,
    then every other oMath in document order; blank renderings are not listed"""
    firsts = []
    for para in root.iter(q("oMathPara")):
        f = next((c for c in para if c.tag == q("oMath")), None)
        if f is not None:
            firsts.append(f)
    out = [(latex(o), True) for o in firsts]
    out += [(latex(o), False) for o in root.iter(q("oMath")) if not any(o is f for f in firsts)]
    return [(l, d) for (l, d) in out if l.strip()]


def pte_check(om, roles=None):
    """docx text assembly: m:oMath -> $latex$, m:oMathPara -> $$latex of its first m:oMath$$, only with
    include_formulas and a non-blank rendering; run texts and formulas in document order"""
    roles = roles or site_roles()
    dx, pte, para = roles["dx"], roles["pte"], roles["para"]
    if pte is None:
        return None
    name = "docx_extractor.py::" + pte.__name__

    def o(t):
        return E("oMath") if t is None else E("oMath", run(t))
    forms = [o("f0"), o(None), E("oMathPara", o("f1")), E("oMathPara"), E("oMathPara", o("f2"), o("f3")),
             E("oMathPara", o(None), o("f4")), E("oMathPara", E("oMathParaPr"), o("f5")),
             E("oMathPara", wrapper("{urn:x}box", o("f6")))]

    def want_of(d, inc):
        if not inc:
            return []
        e = build_any(d)
        if d[0] == "oMath":
            l = om(e)
            return ["$" + l + "$"] if l.strip() else []
        f = next((c for c in e if c.tag == q("oMath")), None)
        l = om(f) if f is not None else ""
        return ["$$" + l + "$$"] if l.strip() else []
    for d in forms:
        for inc in (True, False):
            parts = []
            try:
                pte(build_any(d), parts, inc)
                got = parts
            except Exception as e:  # noqa
                got = f"{type(e).__name__}: {e}"
            if got != want_of(d, inc):
                ET.register_namespace("m", NS)
                return {"reproduced": True, "target": name, "check": "site", "expected": want_of(d, inc), "observed": got,
                        "inputs": {"xml": ET.tostring(build_any(d), encoding="unicode"), "tree": d, "include_formulas": inc}}
    if para is None or not all(hasattr(dx, k) for k in ("W_R", "W_T", "W_P")):
        return None
    # a paragraph: runs and formulas in document order
    def wr(t):
        return ["!" + dx.W_R, {}, None, [["!" + dx.W_T, {}, t, []]]]
    for a in forms:
        for b in forms:
            for inc in (True, False):
                d = ["!" + dx.W_P, {}, None, [wr("a"), a, wr("b"), b, wr("c")]]
                want = "a" + "".join(want_of(a, inc)) + "b" + "".join(want_of(b, inc)) + "c"
                try:
                    got = para(build_any(d), inc)
                except Exception as e:  # noqa
                    got = f"{type(e).__name__}: {e}"
                if got != want:
                    return {"reproduced": True, "target": "docx_extractor.py::" + para.__name__, "check": "site",
                            "expected": want, "observed": got,
                            "inputs": {"xml": ET.tostring(build_any(d), encoding="unicode"), "tree": d, "include_formulas": inc}}
    return None


def pptx_e2e_check(om):
    """the pptx consumer of the formula list, end to end on the shipped fixture: once with its display equation,
    once with the same equation stored inline (no m:oMathPara wrapper)"""
    import importlib
    import io
    import zipfile
    repo = os.environ.get("VERIF_REPO", "/repo")
    fixture = os.path.join(repo, "sharepoint2text/tests/resources/modern_ms/pptx_formula_image.pptx")
    if not os.path.exists(fixture):
        return None
    px = importlib.import_module("sharepoint2text.parsing.extractors.ms_modern.pptx_extractor")

    def to_inline(xml):
        a = xml.index("<m:oMathPara>")
        b = xml.index("</m:oMathParaPr>") + len("</m:oMathParaPr>") if "</m:oMathParaPr>" in xml else a + len("<m:oMathPara>")
        return (xml[:a] + xml[b:]).replace("</m:oMathPara>", "")
    for label, tr, disp in (("display", lambda x: x, True), ("inline", to_inline, False)):
        out = io.BytesIO()
        with zipfile.ZipFile(fixture) as src, zipfile.ZipFile(out, "w", zipfile.ZIP_DEFLATED) as dst:
            for info in src.infolist():
                data = src.read(info.filename)
                if info.filename == "ppt/slides/slide1.xml":
                    xml = data.decode("utf-8")
                    if xml.count("<m:oMathPara>") != 1:
                        return None
                    xml = tr(xml)
                    data = xml.encode("utf-8")
                    first = next(ET.fromstring(data).iter(q("oMath")))
                    want_l = om(first)
                dst.writestr(info, data)
        out.seek(0)
        want = [(want_l, disp)]
        marker = ("$$%s$$" if disp else "$%s$") % want_l
        try:
            content = next(px.read_pptx(out))
            got = [(f.latex, f.is_display) for s_ in content.slides for f in s_.formulas]
            text = content.get_full_text()
        except Exception as e:  # noqa
            got, text = f"{type(e).__name__}: {e}", ""
        if got != want or marker not in text:
            return {"reproduced": True, "target": "pptx_extractor.py::read_pptx", "check": "site",
                    "inputs": {"fixture": "sharepoint2text/tests/resources/modern_ms/pptx_formula_image.pptx", "variant": label},
                    "expected": {"formulas": want, "text contains": marker}, "observed": {"formulas": got, "marker in text": marker in text}}
    return None


def site_roles():
    """the call-site functions of the real modules, found by what they do (they may have been renamed):
    {role: function or None}.  AST only -- the same rules as contracts/C19_sites.py::_discover."""
    import ast
    import importlib
    repo = os.environ.get("VERIF_REPO", "/repo")
    rels = {"pptx": "sharepoint2text/parsing/extractors/ms_modern/pptx_extractor.py",
            "docx": "sharepoint2text/parsing/extractors/ms_modern/docx_extractor.py"}

    def calls(fn, name):
        return [n for n in ast.walk(fn) if isinstance(n, ast.Call) and (
            (isinstance(n.func, ast.Name) and n.func.id == name) or (isinstance(n.func, ast.Attribute) and n.func.attr == name))]
    names = {"pptx": "_extract_formulas_from_element", "docx": "_extract_formulas_from_context", "pte": "_process_text_element"}
    out = {}
    try:
        tops = {k: {n.name: n for n in ast.parse(open(os.path.join(repo, r), encoding="utf-8").read()).body if isinstance(n, ast.FunctionDef)}
                for k, r in rels.items()}
        pc = [q for q, f in tops["pptx"].items() if calls(f, "omml_to_latex")]
        if names["pptx"] not in pc and len(pc) == 1:
            names["pptx"] = pc[0]
        dc = {q: f for q, f in tops["docx"].items() if calls(f, "omml_to_latex")}
        rec = [q for q, f in dc.items() if calls(f, q)]
        if names["pte"] not in dc and len(rec) == 1:
            names["pte"] = rec[0]
        mk = [q for q, f in dc.items() if calls(f, "DocxFormula") and q not in rec]
        if names["docx"] not in dc and len(mk) == 1:
            names["docx"] = mk[0]
        # the paragraph-level caller of the text assembly (optional)
        para = [q for q, f in tops["docx"].items() if q != names["pte"] and calls(f, names["pte"]) and len(f.args.args) == 2
                and calls(f, "join")]
        names["para"] = para[0] if len(para) == 1 else "_extract_paragraph_content"
    except Exception:  # noqa
        pass
    px = importlib.import_module("sharepoint2text.parsing.extractors.ms_modern.pptx_extractor")
    dx = importlib.import_module("sharepoint2text.parsing.extractors.ms_modern.docx_extractor")
    out["pptx"] = getattr(px, names["pptx"], None)
    out["docx"] = getattr(dx, names["docx"], None)
    out["pte"] = getattr(dx, names["pte"], None)
    out["para"] = getattr(dx, names.get("para", ""), None)
    out["dx"], out["px"] = dx, px
    return out


def site_check(which):
    import importlib
    import types
    om = importlib.import_module("sharepoint2text.parsing.extractors.util.omml_to_latex").omml_to_latex
    roles = site_roles()
    sites = []
    if "_extract_formulas_from_context" not in which and roles["pptx"] is not None:
        sites.append(("pptx_extractor.py::" + roles["pptx"].__name__, lambda r: list(roles["pptx"](r))))
    if "_extract_formulas_from_element" not in which and roles["docx"] is not None:
        sites.append(("docx_extractor.py::" + roles["docx"].__name__,
                      lambda r: [(f.latex, f.is_display) for f in roles["docx"](types.SimpleNamespace(document_body=r))]))
    tried = 0
    if "_process_text_element" in which or which == "site:":
        bad = pte_check(om, roles)
        if bad is not None:
            return bad
    if "_process_slide_from_context" in which or which == "site:":
        bad = pptx_e2e_check(om)
        if bad is not None:
            return bad
    if "_process_text_element" in which or "_process_slide_from_context" in which:
        sites = []
    for name, call in sites:
        if name.startswith("docx"):
            try:
                got = call(None)
            except Exception as e:  # noqa
                got = f"{type(e).__name__}: {e}"
            if got != []:
                return {"reproduced": True, "target": name, "check": "site", "inputs": {"document_body": None}, "expected": [], "observed": got}
        for d in site_scope():
            tried += 1
            root = build_any(d)
            want = site_expected(root, om)
            try:
                got = call(root)
            except Exception as e:  # noqa
                got = f"{type(e).__name__}: {e}"
            if got != want:
                ET.register_namespace("m", NS)
                return {"reproduced": True, "target": name, "check": "site", "tried": tried,
                        "inputs": {"xml": ET.tostring(build_any(d), encoding="unicode"), "tree": d}, "expected": want, "observed": got}
    return {"reproduced": False, "note": f"{tried} containers: every formula listed once, display/inline as documented, in order"}


def category(obligation):
    o = obligation or ""
    if "_extract_formulas_from_" in o or "_process_text_element" in o or "_process_slide_from_context" in o:
        return "site:" + o
    if "convert_greek_and_symbols/" in o or "GREEK_TO_LATEX/" in o:
        return "greek"
    if "template." in o:
        return "template." + o.split("template.")[1].split("/")[0].split("#")[0]
    if "/raises" in o or "call-pre#convert_greek" in o or "returns-str" in o:
        return "total"
    if "balance" in o or "lone-brace" in o or "inv-" in o or "pending" in o or "counts" in o:
        return "balance"
    if "None-is-empty" in o:
        return "none" if "<locals>" not in o else "all"
    if "skipped" in o:
        return "template"
    return "all"


def find(req):
    """cached per (category, sources): many undecided obligations of one run ask for the same search"""
    import hashlib
    import json
    which = category(req.get("obligation"))
    repo = os.environ.get("VERIF_REPO", "/repo")
    h = hashlib.sha1((which + "|" + os.environ.get("VERIF_SEED", "0")).encode())
    for rel in ("sharepoint2text/parsing/extractors/util/omml_to_latex.py", "sharepoint2text/parsing/extractors/ms_modern/docx_extractor.py",
                "sharepoint2text/parsing/extractors/ms_modern/pptx_extractor.py", "sharepoint2text/parsing/extractors/data_types.py"):
        try:
            h.update(open(os.path.join(repo, rel), "rb").read())
        except OSError:
            h.update(b"?")
    h.update(open(os.path.abspath(__file__), "rb").read())
    cdir = os.path.join(os.path.dirname(os.path.dirname(os.path.abspath(__file__))), "out", "replay_cache")
    cpath = os.path.join(cdir, "C19_" + h.hexdigest() + ".json")
    try:
        return json.load(open(cpath))
    except (OSError, ValueError):
        pass
    res = _find(req)
    try:
        os.makedirs(cdir, exist_ok=True)
        tmp = cpath + f".{os.getpid()}"
        json.dump(res, open(tmp, "w"), default=repr)
        os.replace(tmp, cpath)
    except OSError:
        pass
    return res


def _find(req):
    import importlib
    m = importlib.import_module("sharepoint2text.parsing.extractors.util.omml_to_latex")
    fn, conv = m.omml_to_latex, m.convert_greek_and_symbols
    which = category(req.get("obligation"))
    seed = int(os.environ.get("VERIF_SEED", "0") or 0)
    if which.startswith("site:"):
        return site_check(which)
    if which == "none":
        try:
            r = fn(None)
        except Exception as e:  # noqa
            r = f"{type(e).__name__}: {e}"
        if r != "":
            return {"reproduced": True, "target": "omml_to_latex.py::omml_to_latex", "inputs": {"tree": None}, "expected": "''", "observed": r}
        which = "all"
    tried = 0
    if which == "greek":
        bad = greek_check(m)
        if bad is not None:
            d = E("oMath", run(bad[3]))
            return {"reproduced": True, "target": "omml_to_latex.py::convert_greek_and_symbols", "check": bad[0],
                    "inputs": {"text": bad[3], "xml": xml_of(d), "tree": d}, "expected": bad[1], "observed": bad[2]}
        which = "all"
    if which == "template.t":
        # a run while a malformed radical is pending: compared with the reference rendering of the pair
        for mal_ in (E("rad", E("e", run("("))), E("rad", E("deg", run("3")), E("e", run("[")))):
            for t in LEAF_TEXTS:
                tried += 1
                d = E("oMath", mal_, run(t))
                ok, a, g = matches_reference(fn, conv, d)
                if not ok:
                    return {"reproduced": True, "target": "omml_to_latex.py::omml_to_latex", "check": which,
                            "inputs": {"xml": xml_of(d), "tree": d}, "expected": a, "observed": g, "tried": tried}
    if which.startswith("template."):
        for s_ in template_scope(which.split(".", 1)[1]):
            tried += 1
            bad = template_check(fn, conv, s_)
            if bad is not None:
                d = E("oMath", s_)
                return {"reproduced": True, "target": "omml_to_latex.py::omml_to_latex", "check": bad[0],
                        "inputs": {"xml": xml_of(d), "tree": d}, "expected": bad[1], "observed": bad[2], "tried": tried}
        # any failing input of the property confirms: the full executable contract, searched once per source state (cached)
        return find({"obligation": ""})
    if which == "all":
        bad = greek_check(m)                     # every mapped symbol, alone and inside a run
        if bad is not None:
            d = E("oMath", run(bad[3]))
            return {"reproduced": True, "target": "omml_to_latex.py::convert_greek_and_symbols", "check": bad[0],
                    "inputs": {"text": bad[3], "xml": xml_of(d), "tree": d}, "expected": bad[1], "observed": bad[2]}
        mm = validate_model(itertools.islice(scope(seed, budget=50), 0, 4000))
        if mm is not None:
            return {"reproduced": False, "note": "MODEL-MISMATCH (assumed library model contradicted natively): " + mm}
    if which != "all":
        if not which.startswith("template."):          # (a template category has its own scope above; `check` has no per-tag part)
            for d in scope(seed):
                tried += 1
                bad = check(fn, conv, d, which)
                if bad is not None:
                    return {"reproduced": True, "target": "omml_to_latex.py::omml_to_latex", "check": bad[0],
                            "inputs": {"xml": xml_of(d), "tree": d}, "expected": bad[1], "observed": bad[2], "tried": tried}
        # any failing input of the property confirms: the full executable contract, searched once per source state (cached)
        return find({"obligation": ""})
    for w in ["all"]:
        for d in scope(seed):
            tried += 1
            bad = check(fn, conv, d, w)
            if bad is not None:
                return {"reproduced": True, "target": "omml_to_latex.py::omml_to_latex", "check": bad[0],
                        "inputs": {"xml": xml_of(d), "tree": d}, "expected": bad[1], "observed": bad[2], "tried": tried}
    sr = site_check("site:")          # list order at the docx / pptx call sites (BOUNDED) and everything proved about them
    if sr.get("reproduced"):
        return sr
    return {"reproduced": False, "note": f"{tried} trees of the small scope satisfy the executable contract ({which}); " + sr["note"]}


def rerun(stored):
    import importlib
    m = importlib.import_module("sharepoint2text.parsing.extractors.util.omml_to_latex")
    d = (stored.get("inputs") or {}).get("tree")
    cat_ = category(stored.get("obligation"))
    if d is None or cat_.startswith("site:"):
        return find({"obligation": stored.get("obligation")})     # the site scope is tiny: search it again
    if cat_.startswith("template.") and len(d[3]) == 1:
        bad = template_check(m.omml_to_latex, m.convert_greek_and_symbols, d[3][0])
    else:
        bad = check(m.omml_to_latex, m.convert_greek_and_symbols, d, cat_)
    if bad is None:
        return {"reproduced": False, "note": "stored tree satisfies the executable contract now", "inputs": stored.get("inputs")}
    return {"reproduced": True, "target": "omml_to_latex.py::omml_to_latex", "check": bad[0], "inputs": stored.get("inputs"),
            "expected": bad[1], "observed": bad[2]}


if __name__ == "__main__":
    import json
    import sys
    sys.path.insert(0, os.environ.get("VERIF_REPO", "/repo"))
    for w in sys.argv[1:] or ["all"]:
        print(w, json.dumps(find({"obligation": {"all": "", "total": "/raises", "balance": "#balance", "order": "order"}.get(w, w)}),
                            ensure_ascii=False)[:900])
