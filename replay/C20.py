"""Native replay for C20: the real functions of _pypdf_aes_fallback.py against an
independent plain-Python FIPS-197 reference (itself checked on the standard's vectors)."""
import os
import random


def _pmul(a, b):
    r = 0
    for i in range(8):
        if (b >> i) & 1:
            r ^= a << i
    for i in range(14, 7, -1):
        if (r >> i) & 1:
            r ^= 0x11B << (i - 8)
    return r


def _inv(a):
    return 0 if a == 0 else next(x for x in range(1, 256) if _pmul(a, x) == 1)


def _aff(b):
    r = 0
    for i in range(8):
        bit = ((b >> i) ^ (b >> ((i + 4) % 8)) ^ (b >> ((i + 5) % 8)) ^ (b >> ((i + 6) % 8)) ^ (b >> ((i + 7) % 8)) ^ (0x63 >> i)) & 1
        r |= bit << i
    return r


S = [_aff(_inv(i)) for i in range(256)]
IS = [0] * 256
for i, v in enumerate(S):
    IS[v] = i


def key_expansion(key):
    nk = len(key) // 4
    nr = nk + 6
    w = [list(key[4 * i:4 * i + 4]) for i in range(nk)]
    rc = 1
    for i in range(nk, 4 * (nr + 1)):
        t = list(w[i - 1])
        if i % nk == 0:
            t = [S[x] for x in t[1:] + t[:1]]
            t[0] ^= rc
            rc = _pmul(rc, 2)
        elif nk > 6 and i % nk == 4:
            t = [S[x] for x in t]
        w.append([a ^ b for a, b in zip(w[i - nk], t)])
    return [bytes(b for word in w[4 * r:4 * r + 4] for b in word) for r in range(nr + 1)]


def _sr(s):
    return [s[(i % 4) + 4 * (((i // 4) + (i % 4)) % 4)] for i in range(16)]


def _isr(s):
    return [s[(i % 4) + 4 * (((i // 4) - (i % 4)) % 4)] for i in range(16)]


_T = {c: [_pmul(v, c) for v in range(256)] for c in (1, 2, 3, 9, 11, 13, 14)}     # the reference's own GF tables (speed only)


def _mc(s, m):
    out = []
    t0, t1, t2, t3 = _T[m[0]], _T[m[1]], _T[m[2]], _T[m[3]]
    for c in range(4):
        a0, a1, a2, a3 = s[4 * c:4 * c + 4]
        out += [t0[a0] ^ t1[a1] ^ t2[a2] ^ t3[a3], t3[a0] ^ t0[a1] ^ t1[a2] ^ t2[a3],
                t2[a0] ^ t3[a1] ^ t0[a2] ^ t1[a3], t1[a0] ^ t2[a1] ^ t3[a2] ^ t0[a3]]
    return out


def enc_block(b, rks):
    nr = len(rks) - 1
    s = [x ^ k for x, k in zip(b, rks[0])]
    for r in range(1, nr):
        s = [x ^ k for x, k in zip(_mc(_sr([S[x] for x in s]), [2, 3, 1, 1]), rks[r])]
    return bytes(x ^ k for x, k in zip(_sr([S[x] for x in s]), rks[nr]))


def dec_block(b, rks):
    nr = len(rks) - 1
    s = [x ^ k for x, k in zip(b, rks[nr])]
    for r in range(nr - 1, 0, -1):
        s = _mc([x ^ k for x, k in zip([IS[x] for x in _isr(s)], rks[r])], [14, 11, 13, 9])
    return bytes(x ^ k for x, k in zip([IS[x] for x in _isr(s)], rks[0]))


def ecb(key, data, enc=True):
    rks = key_expansion(key)
    f = enc_block if enc else dec_block
    return b"".join(f(data[i:i + 16], rks) for i in range(0, len(data), 16))


def cbc_enc(key, iv, data):
    rks = key_expansion(key)
    prev, out = iv, []
    for i in range(0, len(data), 16):
        prev = enc_block(bytes(a ^ b for a, b in zip(data[i:i + 16], prev)), rks)
        out.append(prev)
    return b"".join(out)


def cbc_dec(key, iv, data):
    rks = key_expansion(key)
    prev, out = iv, []
    for i in range(0, len(data), 16):
        blk = data[i:i + 16]
        out.append(bytes(a ^ b for a, b in zip(dec_block(blk, rks), prev)))
        prev = blk
    return b"".join(out)


assert ecb(bytes(range(16)), bytes.fromhex("00112233445566778899aabbccddeeff")).hex() == "69c4e0d86a7b0430d8cdb78070b4c55a"
assert ecb(bytes(range(32)), bytes.fromhex("00112233445566778899aabbccddeeff")).hex() == "8ea2b7ca516745bfeafc49904b496089"
assert cbc_enc(bytes.fromhex("2b7e151628aed2a6abf7158809cf4f3c"), bytes(range(16)), bytes.fromhex("6bc1bee22e409f96e93d7e117393172a")).hex() == "7649abac8119b246cee98e9b12e9197d"


PRIVATE_ROLES = ("_get_round_keys", "_expand_key", "_aes_encrypt_block", "_aes_decrypt_block", "_pkcs7_pad", "_pkcs7_unpad")
DRIVER_ROLES = ("aes_ecb_encrypt", "aes_ecb_decrypt", "aes_cbc_encrypt", "aes_cbc_decrypt")


class Skip(Exception):
    pass


class _Skipped:
    """result of a call that could not be made (the function no longer exists under any known name): equal to everything"""

    def __eq__(self, other):
        return True

    def __ne__(self, other):
        return False

    def __len__(self):
        return 0

    def hex(self):
        return "skipped"


SKIP = _Skipped()


def _missing(*_a, **_k):
    raise Skip()


class Roles:
    """The functions of the real module by ROLE: the name used in the unchanged tree, else the name the pack's data-flow
    analysis found (out/c20_roles_<tree>.json, written by contracts/C20.py::roles_of), else -- for the four drivers -- what the
    real patch_pypdf_fallback_aes() installs into pypdf."""

    def __init__(self, m):
        import hashlib
        import json
        self.m = m
        self.map = {}
        repo = os.environ.get("VERIF_REPO", "/repo")
        path = os.path.join(os.path.dirname(os.path.dirname(os.path.abspath(__file__))), "out",
                            "c20_roles_%s.json" % hashlib.sha1(os.path.realpath(repo).encode()).hexdigest()[:12])
        try:
            self.map = json.load(open(path))
        except Exception:  # noqa
            self.map = {}
        for r in PRIVATE_ROLES + DRIVER_ROLES + ("_chunks", "_xtime", "_gf_mul", "_ROUND_KEY_CACHE", "patch_pypdf_fallback_aes"):
            setattr(self, r, self._find(r))

    def _find(self, role):
        for name in (role, self.map.get(role)):
            if name and hasattr(self.m, name):
                return getattr(self.m, name)
        if role in DRIVER_ROLES:
            fb = _provider()
            try:
                if fb is not None and self.m.patch_pypdf_fallback_aes():
                    return getattr(fb, role)
            except Exception:  # noqa
                pass
        return _missing

    def __getattr__(self, name):          # tables and anything else: straight from the module
        return getattr(self.m, name)

    def clear_cache(self):
        from collections import OrderedDict
        for v in vars(self.m).values():
            if isinstance(v, (OrderedDict, dict)) and v is not vars(self.m) and any(isinstance(k, (bytes, tuple, int)) for k in list(v)[:1] or [b""]):
                if isinstance(v, OrderedDict):
                    v.clear()


def _wrapper(m):
    """CryptAES wrapper installed by patch_pypdf_fallback_aes (if pypdf runs on its fallback provider)."""
    try:
        import pypdf._crypt_providers as providers
        if providers.crypt_provider[0] != "local_crypt_fallback":
            return None
        m.patch_pypdf_fallback_aes()
        import pypdf._crypt_providers._fallback as fb
    except Exception:  # noqa
        return None

    def run(m, cbc_enc, cbc_dec):
        for klen in (16, 32):
            key = bytes(range(klen))
            for n in list(range(0, 40)) + [63, 64, 65]:
                for d in ((bytes(range(7, 250)) * 2)[:n], bytes([16 - (n % 16) or 16]) * n):
                    try:
                        c = fb.CryptAES(key)
                        enc = c.encrypt(d)
                    except Exception as e:  # noqa
                        return ("CryptAES.encrypt", {"key": key.hex(), "data": d.hex()}, "iv + padded ciphertext", f"raised {type(e).__name__}: {e}")
                    if len(enc) != 16 + len(d) + (16 - len(d) % 16):
                        return ("CryptAES.encrypt", {"key": key.hex(), "data": d.hex()}, "iv + padded ciphertext", f"{len(enc)} bytes")
                    iv, body = enc[:16], enc[16:]
                    pad = 16 - len(d) % 16
                    if body != cbc_enc(key, iv, d + bytes([pad]) * pad):
                        return ("CryptAES.encrypt", {"key": key.hex(), "data": d.hex()}, "CBC of padded data under the prepended IV", body.hex()[:64])
                    try:
                        back = c.decrypt(enc)
                    except Exception as e:  # noqa
                        back = f"{type(e).__name__}: {e}".encode()
                    if back != d:
                        return ("CryptAES.decrypt", {"key": key.hex(), "data": d.hex()}, d.hex(), bytes(back).hex())
        return None
    return run


def _source_ints(m):
    """int literals of the module source outside the big table literals (candidates for run / chunk / cache sizes)"""
    import ast
    try:
        tree = ast.parse(open(m.__file__, encoding="utf-8").read())
    except Exception:  # noqa
        return set()
    out = set()

    def walk(n):
        if isinstance(n, (ast.Tuple, ast.List)) and len(n.elts) > 32:
            return
        if isinstance(n, ast.Constant) and isinstance(n.value, int) and not isinstance(n.value, bool):
            out.add(n.value)
        for ch in ast.iter_child_nodes(n):
            walk(ch)
    walk(tree)
    return out


def boundaries(m, cap=1 << 17):
    """message sizes (bytes) at which a blocked / batched driver could change behaviour: powers of two and every int literal
    of the module read as a byte count and as a block count"""
    bs = {1 << e for e in range(6, 15)}
    for v in _source_ints(m):
        if 32 <= v <= cap and v % 16 == 0:
            bs.add(v)
        if 2 <= v and 16 * v <= cap:
            bs.add(16 * v)
    return sorted(bs)


def long_lengths(m, budget=700_000):
    """block-aligned lengths around every boundary, shortest first, within a total byte budget"""
    seen, total = set(), 0
    for b in boundaries(m):
        for n in (b, b + 16, 2 * b + 32):
            if n in seen or n <= 80:
                continue
            if total + n > budget:
                return
            seen.add(n)
            total += n
            yield n


def _first_bad_block(a, b):
    for i in range(0, max(len(a), len(b)), 16):
        if a[i:i + 16] != b[i:i + 16]:
            return i // 16
    return None


def long_messages(m, seed=0):
    """SP 800-38A equations on LONG block-aligned messages (directed search over the message length: the drivers are specified
    for every length, a batched implementation can go wrong only beyond its batch size).  -> failure tuple | None"""
    rnd = random.Random(0xC20 + seed)
    for idx, n in enumerate(long_lengths(m)):
        klen = (16, 32, 24)[idx % 3]
        key, iv, data = rnd.randbytes(klen), rnd.randbytes(16), rnd.randbytes(n)
        m.clear_cache()
        c_ecb, c_cbc = ecb(key, data), cbc_enc(key, iv, data)     # reference; its inverse on these ciphertexts is `data`
        for name, call, want in (("aes_ecb_encrypt", lambda: m.aes_ecb_encrypt(key, data), c_ecb),
                                 ("aes_ecb_decrypt", lambda: m.aes_ecb_decrypt(key, c_ecb), data),
                                 ("aes_cbc_encrypt", lambda: m.aes_cbc_encrypt(key, iv, data), c_cbc),
                                 ("aes_cbc_decrypt", lambda: m.aes_cbc_decrypt(key, iv, c_cbc), data)):
            try:
                got = bytes(call())
            except Skip:
                continue
            except Exception as e:  # noqa
                got = f"{type(e).__name__}: {e}".encode()
            if got != want:
                arg = c_ecb if name == "aes_ecb_decrypt" else c_cbc if name == "aes_cbc_decrypt" else data
                inputs = {"key": key.hex(), "data": arg.hex(), "length": n, "first_bad_block": _first_bad_block(got, want)}
                if "cbc" in name:
                    inputs["iv"] = iv.hex()
                k = 16 * (inputs["first_bad_block"] or 0)
                return (name, inputs, f"block {k // 16}: {want[k:k + 16].hex()}", f"block {k // 16}: {got[k:k + 16].hex()}")
    return None


def concurrent(m, seed=0, threads=4, rounds=25, blocks=6):
    """The property quantifies over every key and block, not over one call at a time: several threads of one process inside the
    drivers AT THE SAME TIME (a thread pool extracting several encrypted PDFs; the module expects it -- see its cache) must each
    get the FIPS-197 / SP 800-38A result.  Every thread has its own key / IV / message and checks every result against the
    reference computed beforehand; the interpreter's switch interval is made tiny so that a preemption falls inside nearly every
    block.  Sequentially correct code fails here only if it keeps working state that outlives one call (a module-level scratch
    list, a reused buffer, a default-argument accumulator).  -> failure tuple | None"""
    import sys
    import threading
    rnd = random.Random(0x7C20 + seed)
    jobs = []
    for t in range(threads):
        klen = (16, 24, 32)[t % 3]
        key, iv, data = rnd.randbytes(klen), rnd.randbytes(16), rnd.randbytes(16 * blocks)
        c_ecb, c_cbc = ecb(key, data), cbc_enc(key, iv, data)
        jobs.append((key, iv, data, c_ecb, c_cbc))
    # sequential pass first: a difference seen there belongs to the sequential scopes, not to this one
    def calls(job):
        key, iv, data, c_ecb, c_cbc = job
        return (("aes_ecb_encrypt", (key, data), c_ecb), ("aes_ecb_decrypt", (key, c_ecb), data),
                ("aes_cbc_encrypt", (key, iv, data), c_cbc), ("aes_cbc_decrypt", (key, iv, c_cbc), data))

    def once(job):
        for name, args, want in calls(job):
            try:
                got = bytes(getattr(m, name)(*args))
            except Skip:
                continue
            except Exception as e:  # noqa
                got = f"{type(e).__name__}: {e}".encode()
            if got != want:
                return name, args, want, got
        return None
    for job in jobs:
        if once(job) is not None:
            return None
    failures = []

    def worker(job, which, start):
        name, args, want = calls(job)[which]
        try:
            start.wait(timeout=10)
        except Exception:  # noqa
            return
        fn = getattr(m, name)
        for _ in range(rounds):
            if failures:
                return
            try:
                got = bytes(fn(*args))
            except Skip:
                return
            except Exception as e:  # noqa
                got = f"{type(e).__name__}: {e}".encode()
            if got != want:
                failures.append((name, args, want, got))
                return
    old = sys.getswitchinterval()
    sys.setswitchinterval(1e-6)
    try:
        # one phase per driver (all threads inside the SAME driver, so that state private to one driver is contended too),
        # then a mixed phase (state shared between drivers)
        for which in (0, 1, 2, 3, None):
            start = threading.Barrier(threads)
            ts = [threading.Thread(target=worker, args=(job, (t % 4) if which is None else which, start), daemon=True)
                  for t, job in enumerate(jobs)]
            for t in ts:
                t.start()
            for t in ts:
                t.join(60)
            if failures:
                break
    finally:
        sys.setswitchinterval(old)
    if not failures:
        return None
    name, args, want, got = failures[0]
    k = 16 * (_first_bad_block(got, want) or 0)
    inputs = {"key": args[0].hex(), "data": args[-1].hex(), "first_bad_block": k // 16,
              "schedule": f"{threads} threads of one process call the four drivers at the same time, each with its own key and message "
                          f"(sys.setswitchinterval(1e-6)); the same call alone returns the expected value"}
    if len(args) == 3:
        inputs["iv"] = args[1].hex()
    return (name, inputs, f"block {k // 16}: {want[k:k + 16].hex()}", f"block {k // 16}: {got[k:k + 16].hex()} (concurrent call)")


def _provider():
    try:
        import pypdf._crypt_providers as providers
        if providers.crypt_provider[0] != "local_crypt_fallback":
            return None
        import pypdf._crypt_providers._fallback as fb
        return fb
    except Exception:  # noqa
        return None


def fresh_iv(m):
    """The stream wrapper prepends a FRESH IV: after ONE patch_pypdf_fallback_aes() the IVs of all encrypt() calls (same object,
    other objects, other keys, equal and different streams, before and after re-applying the patch) are pairwise distinct
    (a collision of honest 128-bit random IVs has probability < 2^-115 here)."""
    fb = _provider()
    if fb is None or not m.patch_pypdf_fallback_aes():
        return None
    import pypdf._encryption as enc
    seen = {}
    log = []
    objs = [fb.CryptAES(bytes(range(16))), enc.CryptAES(bytes(range(16))), enc.CryptAES(bytes(range(1, 33)))]
    for rnd_ in range(3):
        if rnd_ == 2:
            m.patch_pypdf_fallback_aes()
            objs.append(enc.CryptAES(bytes(range(2, 18))))
        for oi, c in enumerate(objs):
            for msg in (b"same stream", b"same stream", b"stream %d" % rnd_, b""):
                out = c.encrypt(msg)
                iv = bytes(out[:16])
                log.append((oi, msg))
                if len(out) < 16:
                    return ("CryptAES.encrypt", {"data": msg.hex()}, "IV || ciphertext", f"{len(out)} bytes")
                if iv in seen:
                    j = seen[iv]
                    return ("CryptAES.encrypt", {"calls": f"one patch_pypdf_fallback_aes(), then encrypt() call #{j} (object {log[j][0]}, data {log[j][1]!r}) "
                                                          f"and call #{len(log) - 1} (object {oi}, data {msg!r})", "key_of_second": getattr(c, "key", b"").hex()},
                            "two different 16-byte IVs (a fresh secrets.token_bytes(16) per call)", f"both calls used IV {iv.hex()}")
                seen[iv] = len(log) - 1
    return None


def installed(m):
    """what pypdf calls after patch_pypdf_fallback_aes(): the bindings in the fallback provider module, in the provider
    package and in pypdf._encryption (which imported the names earlier) against the reference"""
    fb = _provider()
    if fb is None:
        return None
    try:
        applied = m.patch_pypdf_fallback_aes()
    except Exception as e:  # noqa
        applied = f"raised {type(e).__name__}: {e}"
    if applied is not True:
        return ("patch_pypdf_fallback_aes", {"pypdf provider": "local_crypt_fallback (no crypto library installed)"}, "True (AES installed)", repr(applied))
    import pypdf._crypt_providers as providers
    import pypdf._encryption as enc
    key, iv = bytes(range(3, 19)), bytes(range(100, 116))
    data = bytes(range(7, 55))
    want = {"aes_ecb_encrypt": ((key, data), ecb(key, data)), "aes_ecb_decrypt": ((key, data), ecb(key, data, False)),
            "aes_cbc_encrypt": ((key, iv, data), cbc_enc(key, iv, data)), "aes_cbc_decrypt": ((key, iv, data), cbc_dec(key, iv, data))}
    for mod in (fb, providers, enc):
        for name, (args, ref) in want.items():
            try:
                got = bytes(getattr(mod, name)(*args))
            except Exception as e:  # noqa
                got = f"{type(e).__name__}: {e}".encode()
            if got != ref:
                return (f"{mod.__name__}.{name} (after patch_pypdf_fallback_aes)", {"args": [a.hex() for a in args]}, ref.hex(), got.hex() if len(got) == len(ref) else repr(got))
        for k in (bytes(range(16)), bytes(range(32))):
            for d in (b"", b"0123456789abcdef", bytes(range(40))):
                try:
                    c = mod.CryptAES(k)
                    out = bytes(c.encrypt(d))
                    pad = 16 - len(d) % 16
                    ok = out[16:] == cbc_enc(k, out[:16], d + bytes([pad]) * pad) and bytes(mod.CryptAES(k).decrypt(out)) == d
                    obs = out.hex()
                except Exception as e:  # noqa
                    ok, obs = False, f"{type(e).__name__}: {e}"
                if not ok:
                    return (f"{mod.__name__}.CryptAES (after patch_pypdf_fallback_aes)", {"key": k.hex(), "data": d.hex()},
                            "encrypt = IV || CBC_key(pad(data)); a new CryptAES(key).decrypt inverts it", obs)
    return None


def chunks_ok(m):
    """the assumed contract of _chunks: block j of a block-aligned buffer is bytes 16j..16j+15 (bytes and memoryview input)"""
    if m._chunks is _missing:
        return None
    for n in list(range(0, 81, 16)) + [4096, 4112]:
        d = bytes((7 * i + 3) % 256 for i in range(n))
        for buf in (d, memoryview(d), bytearray(d)):
            got = [bytes(x) for x in m._chunks(buf, 16)]
            if got != [d[i:i + 16] for i in range(0, n, 16)]:
                return ("_chunks", {"data": d.hex(), "size": 16, "type": type(buf).__name__}, f"{n // 16} consecutive 16-byte blocks", f"{len(got)} chunks")
    return None


def wrapper_long(m, cbc_enc, seed=0):
    """CryptAES round trip / CBC equation on streams around the long-message boundaries"""
    fb = _provider()
    if fb is None or not m.patch_pypdf_fallback_aes():
        return None
    rnd = random.Random(0xC200 + seed)
    total = 0
    for b in boundaries(m):
        for n in (b - 16, b + 5):
            if n <= 65 or total > 150_000:
                continue
            total += n
            key = rnd.randbytes((16, 32)[(n // 16) % 2])
            d = rnd.randbytes(n)
            c = fb.CryptAES(key)
            try:
                out = bytes(c.encrypt(d))
                pad = 16 - n % 16
                if out[16:] != cbc_enc(key, out[:16], d + bytes([pad]) * pad):
                    return ("CryptAES.encrypt", {"key": key.hex(), "data": d.hex(), "length": n}, "IV || CBC(pad(data)) under the prepended IV", out[:48].hex() + "...")
                back = bytes(c.decrypt(out))
            except Exception as e:  # noqa
                back = f"{type(e).__name__}: {e}".encode()
            if back != d:
                k = 16 * (_first_bad_block(back, d) or 0)
                return ("CryptAES.decrypt", {"key": key.hex(), "data_encrypted": d.hex(), "length": n, "first_bad_block": k // 16},
                        f"block {k // 16}: {d[k:k + 16].hex()}", f"block {k // 16}: {back[k:k + 16].hex()}")
    return None


def cases(seed):
    rnd = random.Random(seed)
    yield bytes(16), bytes(16), bytes(16)
    for klen in (16, 24, 32):
        yield bytes(range(klen)), bytes(range(16)), bytes.fromhex("00112233445566778899aabbccddeeff")
        for _ in range(40):
            n = rnd.choice([0, 1, 2, 3, 5])
            yield rnd.randbytes(klen), rnd.randbytes(16), rnd.randbytes(16 * n)
        for b in (0x00, 0xFF, 0x80, 0x01):
            yield bytes([b]) * klen, bytes([b]) * 16, bytes([b]) * 32


def find(req):
    import importlib
    m = Roles(importlib.import_module("sharepoint2text.parsing.extractors.pdf._pypdf_aes_fallback"))
    tried = 0

    def bad(target, inputs, want, got):
        return {"reproduced": True, "target": f"_pypdf_aes_fallback.py::{target}", "inputs": inputs,
                "expected": want, "observed": got, "tried": tried}
    for tname, ref in (("_SBOX", S), ("_INV_SBOX", IS)):
        if not hasattr(m, tname):
            continue
        t = list(getattr(m, tname))
        if t != ref:
            i = next(k for k in range(256) if k >= len(t) or t[k] != ref[k])
            return bad(tname, {"index": i}, hex(ref[i]), hex(t[i]) if i < len(t) else "missing")
    for k in (2, 3, 9, 11, 13, 14):
        if not hasattr(m, f"_MUL{k}"):
            continue
        t = list(getattr(m, f"_MUL{k}"))
        ref = [_pmul(v, k) for v in range(256)]
        if t != ref:
            i = next(j for j in range(256) if t[j] != ref[j])
            return bad(f"_MUL{k}", {"index": i}, hex(ref[i]), hex(t[i]))
    for a in range(256):
        if m._xtime is not _missing and m._xtime(a) != _pmul(a, 2):
            return bad("_xtime", {"a": a}, _pmul(a, 2), m._xtime(a))
        for b in (0, 1, 2, 3, 9, 11, 13, 14, 0x80, 0xFF, a):
            if m._gf_mul is not _missing and m._gf_mul(a, b) != _pmul(a, b):
                return bad("_gf_mul", {"a": a, "b": b}, _pmul(a, b), m._gf_mul(a, b))
    def run(fn, *args):
        """value of a call on VALID inputs; an escaping exception is an observation like any other"""
        try:
            r = fn(*args)
            return [bytes(x) for x in r] if isinstance(r, list) else bytes(r)
        except Skip:
            return SKIP
        except Exception as e:  # noqa
            return f"raised {type(e).__name__}: {e}"

    def hx(v):
        return v.hex() if isinstance(v, (bytes, bytearray)) else ([x.hex() for x in v][-1] if isinstance(v, list) and v else str(v))

    r = chunks_ok(m)
    if r is not None:
        return bad(*r)
    for key, iv, data in cases(int(os.environ.get("VERIF_SEED", "0") or 0)):
        tried += 1
        m.clear_cache()
        rks = key_expansion(key)
        got = run(m._expand_key, key)
        if got != rks:
            return bad("_expand_key", {"key": key.hex()}, hx(rks), hx(got))
        blk = (data + bytes(16))[:16]
        for fn, ref in ((m._aes_encrypt_block, enc_block), (m._aes_decrypt_block, dec_block)):
            got = run(fn, blk, rks)
            if got is not SKIP and got != ref(blk, rks):
                return bad(fn.__name__, {"block": blk.hex(), "key": key.hex()}, ref(blk, rks).hex(), hx(got))
        for name, got, want in (("aes_ecb_encrypt", run(m.aes_ecb_encrypt, key, data), ecb(key, data)),
                                ("aes_ecb_decrypt", run(m.aes_ecb_decrypt, key, data), ecb(key, data, False)),
                                ("aes_cbc_encrypt", run(m.aes_cbc_encrypt, key, iv, data), cbc_enc(key, iv, data)),
                                ("aes_cbc_decrypt", run(m.aes_cbc_decrypt, key, iv, data), cbc_dec(key, iv, data))):
            if got != want:
                return bad(name, {"key": key.hex(), "iv": iv.hex(), "data": data.hex()}, want.hex(), hx(got))
        for n in range(0, 40, 7):
            d = data[:n] if len(data) >= n else bytes(n)
            p = run(m._pkcs7_pad, d, 16)
            if p is SKIP:
                continue
            if isinstance(p, str) or len(p) % 16 or p[:len(d)] != d or run(m._pkcs7_unpad, p, 16) != d:
                return bad("_pkcs7_pad/_pkcs7_unpad", {"data": d.hex()}, "unpad(pad(d)) == d", hx(p))
    # PKCS#7: plaintexts ending in their own pad byte value, all pad lengths
    for n in range(0, 50):
        for tail in (b"", b"\x01", b"\x02\x02", b"\x10" * 3, bytes([16 - (n % 16)]) * 2):
            d = (bytes(range(1, 200)) * 2)[:n] + tail
            p = run(m._pkcs7_pad, d, 16)
            want_p = 16 - len(d) % 16
            if p is SKIP:
                p = d + bytes([want_p]) * want_p
            if isinstance(p, str) or len(p) != len(d) + want_p or p[:len(d)] != d or p[len(d):] != bytes([want_p]) * want_p:
                return bad("_pkcs7_pad", {"data": d.hex()}, (d + bytes([want_p]) * want_p).hex(), hx(p))
            u = run(m._pkcs7_unpad, p, 16)
            if u != d:
                return bad("_pkcs7_unpad", {"data": p.hex()}, d.hex(), hx(u))
    for badpad in (bytes(12) + b"abc\x00", bytes(12) + b"abc\x11", bytes(12) + b"ab\x02\x03", bytes(15) + b"\x05", bytes(31) + b"\x00", bytes(30) + b"\x03\x02"):
        try:
            r = m._pkcs7_unpad(badpad, 16)
            return bad("_pkcs7_unpad", {"data": badpad.hex()}, "ValueError", bytes(r).hex())
        except (ValueError, Skip):
            pass
    # round-key cache: a sequence of keys that differ only by leading zero bytes / length, without clearing the cache
    m.clear_cache()
    hist = [bytes(15) + b"\x07", bytes(23) + b"\x07", bytes(31) + b"\x07", b"\x07" + bytes(15), bytes(16), bytes(24), bytes(32), bytes(15) + b"\x07"]
    for key in hist + hist[::-1]:
        tried += 1
        got = run(m._get_round_keys, key)
        if got != key_expansion(key):
            return bad("_get_round_keys", {"key": key.hex(), "history": "keys differing by leading zeros / length, cache not cleared"},
                       key_expansion(key)[-1].hex(), hx(got))
    for badkey in (bytes(15), bytes(17), b"", b"\x07"):
        try:
            m._get_round_keys(badkey)
            return bad("_get_round_keys", {"key": badkey.hex(), "history": "after valid keys were cached"}, "ValueError", "returned")
        except (ValueError, Skip):
            pass
    wrapper = _wrapper(m)
    if wrapper is not None:
        r = wrapper(m, cbc_enc, cbc_dec)
        if r is not None:
            return bad(*r)
    r = installed(m) or fresh_iv(m)
    if r is not None:
        return bad(*r)
    r = long_messages(m, int(os.environ.get("VERIF_SEED", "0") or 0)) or wrapper_long(m, cbc_enc)
    if r is not None:
        return bad(*r)
    r = concurrent(m, int(os.environ.get("VERIF_SEED", "0") or 0))
    if r is not None:
        return bad(*r)
    k16, b16 = bytes(16), bytes(16)
    wrong = [(m._expand_key, (bytes(15),)), (m._aes_encrypt_block, (bytes(15), key_expansion(k16))), (m._aes_decrypt_block, (bytes(17), key_expansion(k16)))]
    # every combination of key / IV / message lengths in which at least one is wrong (the check order, early returns and
    # short-cuts for empty or one-block messages must not let a wrong length through)
    key_lens, iv_lens, data_lens = (0, 5, 15, 16, 17, 20, 24, 32, 33, 64), (0, 15, 16, 17, 32), (0, 1, 15, 16, 17, 31, 32, 48)
    for kl in key_lens:
        for dl in data_lens:
            if kl not in (16, 24, 32) or dl % 16:
                wrong += [(m.aes_ecb_encrypt, (bytes(kl), bytes(dl))), (m.aes_ecb_decrypt, (bytes(kl), bytes(dl)))]
            for il in iv_lens:
                if kl not in (16, 24, 32) or dl % 16 or il != 16:
                    wrong += [(m.aes_cbc_encrypt, (bytes(kl), bytes(il), bytes(dl))), (m.aes_cbc_decrypt, (bytes(kl), bytes(il), bytes(dl)))]
    for fn, args in wrong:
        shown = {"args": [a.hex() if isinstance(a, bytes) else "round keys" for a in args]}
        try:
            fn(*args)
            return bad(fn.__name__, shown, "ValueError", "returned")
        except (ValueError, Skip):
            pass
        except Exception as e:  # noqa
            return bad(fn.__name__, shown, "ValueError", type(e).__name__)
    return {"reproduced": False, "note": f"{tried} key/iv/message triples and all table entries agree with the reference"}


def rerun(stored):
    return find({})
