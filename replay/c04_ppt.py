"""Function-level replay for the PPT document-stream readers (C04 (e): slide / unit numbers >= 1): hand-built record streams of the
`PowerPoint Document` stream that reach every way slides come into being -- the slide list with text, a slide list with persist
atoms only (text-less slides), slide / notes containers, and text atoms outside any container (the raw-text fallback), alone and
combined.  The readers are found by signature (a bytes stream plus the PptContent to fill), not by name."""
import inspect
import struct

RT_TEXT_CHARS, RT_TEXT_BYTES, RT_CSTRING, RT_TEXT_HEADER = 0x0FA0, 0x0FA8, 0x0FBA, 0x0F9F
RT_SLIDE, RT_NOTES, RT_MASTER, RT_SLIDE_LIST, RT_PERSIST, RT_DOCUMENT = 0x03EE, 0x03F0, 0x03F8, 0x0FF0, 0x03F3, 0x03E8


def atom(typ, data, inst=0):
    return struct.pack("<HHI", (inst << 4) | 0, typ, len(data)) + data


def container(typ, children, inst=0):
    body = b"".join(children)
    return struct.pack("<HHI", (inst << 4) | 0x0F, typ, len(body)) + body


def streams():
    """(label, stream) -- the grammar: parts = any subset of {slide list (k persist atoms, with / without text), slide container with
    text, notes container with text, loose text atom}."""
    persist = atom(RT_PERSIST, bytes(20))
    hdr = atom(RT_TEXT_HEADER, struct.pack("<I", 0))
    tb = lambda s: atom(RT_TEXT_BYTES, s.encode("latin-1"))        # noqa: E731
    tc = lambda s: atom(RT_TEXT_CHARS, s.encode("utf-16-le"))      # noqa: E731
    cs = lambda s: atom(RT_CSTRING, s.encode("utf-16-le"))         # noqa: E731
    parts = {
        "slide list, 2 slides with text": container(RT_SLIDE_LIST, [persist, hdr, tb("First slide"), persist, hdr, tc("Second slide")]),
        "slide list, 2 persist atoms without text": container(RT_SLIDE_LIST, [persist, persist]),
        "slide list, 1 persist atom without text": container(RT_SLIDE_LIST, [persist]),
        "slide container with text": container(RT_SLIDE, [hdr, tb("Text in a slide container")]),
        "notes container with text": container(RT_NOTES, [hdr, tb("Speaker notes")]),
        "master container with text": container(RT_MASTER, [hdr, tb("Master text")]),
        "loose text bytes atom": tb("Loose text outside any container"),
        "loose text chars atom": tc("Loose unicode text"),
        "loose cstring": cs("Loose title string"),
    }
    names = list(parts)
    yield "empty stream", b""
    for n in names:
        yield n, parts[n]
    for i, a in enumerate(names):
        for b in names[i + 1:]:
            yield f"{a} + {b}", parts[a] + parts[b]
            yield f"document container [{a} + {b}]", container(RT_DOCUMENT, [parts[a], parts[b]])


def readers(px, dt):
    """module-level functions (stream: bytes, content: PptContent) -> fills content"""
    out = []
    for name, fn in vars(px).items():
        if not inspect.isfunction(fn) or fn.__module__ != px.__name__:
            continue
        try:
            ps = list(inspect.signature(fn).parameters.values())
        except (TypeError, ValueError):
            continue
        if len(ps) == 2 and "bytes" in str(ps[0].annotation) and "PptContent" in str(ps[1].annotation):
            out.append((name, fn))
    return out


def number_failures(content):
    bad = []
    for i, s in enumerate(getattr(content, "slides", []) or []):
        n = getattr(s, "slide_number", None)
        if not (isinstance(n, int) and not isinstance(n, bool) and n >= 1):
            bad.append(f"slides[{i}].slide_number={n!r}")
    try:
        for i, u in enumerate(content.iterate_units()):
            n = u.get_metadata().unit_number
            if not (isinstance(n, int) and not isinstance(n, bool) and n >= 1):
                bad.append(f"unit[{i}]: unit_number={n!r}")
    except Exception as e:  # noqa
        bad.append(f"iterate_units raised {type(e).__name__}: {e}")
    return bad


def find(ob):
    try:
        from sharepoint2text.parsing.extractors import data_types as dt
        from sharepoint2text.parsing.extractors.ms_legacy import ppt_extractor as px
        fns = readers(px, dt)
    except Exception as e:  # noqa
        return {"reproduced": False, "note": f"PPT stream replay unavailable: {type(e).__name__}: {e}"}
    if not fns:
        return {"reproduced": False, "note": "no (stream, PptContent) reader found in ppt_extractor"}
    n = 0
    for label, data in streams():
        for name, fn in fns:
            n += 1
            try:
                content = dt.PptContent()
                fn(data, content)
            except Exception:  # noqa -- a refused stream is not a result
                continue
            bad = number_failures(content)
            if bad:
                return {"reproduced": True, "target": f"ppt_extractor.py::{name}", "inputs": {"records": label, "document_stream_hex": data.hex()},
                        "expected": "every slide / unit number is a positive integer", "observed": bad[0]}
    return {"reproduced": False, "note": f"{n} hand-built PowerPoint Document streams: every slide / unit number is >= 1"}
