"""Native replay for C10 (runs under /venv/bin/python on the REAL code, no z3).

Archives are built by reference writers -- zipfile (stored / deflated), tarfile (plain / gz / bz2 / xz) and an
independent minimal 7z writer written from the 7z format description (copy / LZMA / LZMA2 coders, one solid folder or
one folder per file, uncompressed header) -- over small member sets with directories, empty files, hidden /
unsupported / nested-archive members interleaved and one member corrupted at a time.  `read_archive` results
(filename, file_path, to_json) are compared with direct extraction of each visible supported member on its own.
Function-level differential checks cover the 7z byte readers against the format spec.
"""
import io
import itertools
import json
import lzma
import os
import struct
import tarfile
import zipfile
import zlib


# ------------------------------------------------------------------ 7z writer --
def number(v):
    """7z NUMBER: leading 1-bits of the first byte = count of extra little-endian bytes."""
    for k in range(8):
        if v < (1 << (7 * (k + 1))):
            first = ((0xFF << (8 - k)) & 0xFF) | (v >> (8 * k))
            return bytes([first]) + (v & ((1 << (8 * k)) - 1)).to_bytes(k, "little")
    return b"\xff" + v.to_bytes(8, "little")


def number_spec(data, p=0):
    """decoder side of the same format rule -> (value, encoded length)"""
    b0 = data[p]
    k = 0
    while k < 8 and b0 & (0x80 >> k):
        k += 1
    y = int.from_bytes(data[p + 1:p + 1 + k], "little")
    hi = (b0 & (0xFF >> (k + 1))) << (8 * k) if k < 7 else 0
    return hi + y, 1 + k


def bitvec(bits):
    out = bytearray((len(bits) + 7) // 8)
    for i, b in enumerate(bits):
        if b:
            out[i // 8] |= 0x80 >> (i % 8)
    return bytes(out)


def encode(method, data):
    if method == "copy":
        return b"\x00", None, data
    if method == "lzma":
        raw = lzma.compress(data, format=lzma.FORMAT_ALONE)
        return b"\x03\x01\x01", raw[:5], raw[13:]
    if method.startswith("lzma:"):
        # LZMA1 with tuned literal-context / literal-position / position bits (7z a -m0=lzma:lc=4:lp=0:pb=0 ...): the
        # first property byte is (pb * 5 + lp) * 9 + lc, not the default 0x5D; dictionary sizes other than the preset's
        opts = dict(kv.split("=") for kv in method.split(":")[1:])
        flt = {"id": lzma.FILTER_LZMA1, "preset": 0}
        flt.update({k: int(v) for k, v in opts.items()})
        raw = lzma.compress(data, format=lzma.FORMAT_ALONE, filters=[flt])
        return b"\x03\x01\x01", raw[:5], raw[13:]
    if method == "lzma2" or method.startswith("lzma2:"):
        # LZMA2 property byte p: dictionary size (2 | (p & 1)) << (p // 2 + 11)
        p = int(method.split(":")[1]) if ":" in method else 16
        raw = lzma.compress(data, format=lzma.FORMAT_RAW, filters=[{"id": lzma.FILTER_LZMA2, "dict_size": (2 | (p & 1)) << (p // 2 + 11), "preset": 0}])
        return b"\x21", bytes([p]), raw
    raise ValueError(method)


def write7z(entries, method="copy", solid=True, with_attrs=True, with_crc=True, group=None, encode_header=False):
    """entries: [(name, bytes | None)]: None = directory, b'' = empty file (emptyStream + emptyFile, as 7-Zip writes it).
    solid: one folder for everything; group=n: solid blocks of n files; else one folder per file."""
    streams = [(n, d) for n, d in entries if d]
    if group:
        groups = [streams[i:i + group] for i in range(0, len(streams), group)]
    else:
        groups = [streams] if (solid and streams) else [[s] for s in streams]
    packed, folders = [], []
    for g in groups:
        blob = b"".join(d for _n, d in g)
        cid, props, pk = encode(method, blob)
        packed.append(pk)
        folders.append((cid, props, len(blob), [len(d) for _n, d in g]))
    h = bytearray(b"\x01")
    if folders:
        h += b"\x04"
        h += b"\x06" + number(0) + number(len(packed)) + b"\x09" + b"".join(number(len(p)) for p in packed) + b"\x00"
        h += b"\x07\x0b" + number(len(folders)) + b"\x00"
        for cid, props, _u, _s in folders:
            h += number(1) + bytes([len(cid) | (0x20 if props is not None else 0)]) + cid
            if props is not None:
                h += number(len(props)) + props
        h += b"\x0c" + b"".join(number(u) for _a, _b, u, _s in folders) + b"\x00"
        h += b"\x08"
        if any(len(s) != 1 for *_x, s in folders):
            h += b"\x0d" + b"".join(number(len(s)) for *_x, s in folders)
            h += b"\x09" + b"".join(number(x) for *_x, s in folders for x in s[:-1])
        if with_crc:
            h += b"\x0a\x01" + b"".join(struct.pack("<I", zlib.crc32(d)) for _n, d in streams)
        h += b"\x00\x00"
    h += b"\x05" + number(len(entries))
    empty = [not d for _n, d in entries]
    if any(empty):
        bv = bitvec(empty)
        h += b"\x0e" + number(len(bv)) + bv
        ef = [d is not None for _n, d in entries if not d]
        if any(ef):
            bv = bitvec(ef)
            h += b"\x0f" + number(len(bv)) + bv
    names = b"\x00" + b"".join(n.encode("utf-16-le") + b"\x00\x00" for n, _d in entries)
    h += b"\x11" + number(len(names)) + names
    if with_attrs:
        attrs = b"\x01\x00" + b"".join(struct.pack("<I", 0x10 if d is None else 0x20) for _n, d in entries)
        h += b"\x15" + number(len(attrs)) + attrs
    h += b"\x00\x00"
    body = b"".join(packed)
    if encode_header:
        # EncodedHeader (what 7-Zip writes by default): the header itself is an LZMA-coded pack stream after the data; the end
        # header is 0x17 + the StreamsInfo (PackInfo, UnpackInfo) that locates and decodes it
        cid, props, ph = encode("lzma", bytes(h))
        eh = b"\x17" + b"\x06" + number(len(body)) + number(1) + b"\x09" + number(len(ph)) + b"\x00"
        eh += b"\x07\x0b" + number(1) + b"\x00" + number(1) + bytes([len(cid) | 0x20]) + cid + number(len(props)) + props
        eh += b"\x0c" + number(len(h)) + b"\x0a\x01" + struct.pack("<I", zlib.crc32(bytes(h))) + b"\x00" + b"\x00"
        body, h = body + ph, eh
    start = struct.pack("<QQI", len(body), len(h), zlib.crc32(bytes(h)))
    return b"7z\xbc\xaf\x27\x1c\x00\x04" + struct.pack("<I", zlib.crc32(start)) + start + body + bytes(h)


# ------------------------------------------------------------- other writers --
def write_zip(entries, comp):
    buf = io.BytesIO()
    with zipfile.ZipFile(buf, "w", comp) as z:
        for n, d in entries:
            z.writestr(n + "/" if d is None else n, b"" if d is None else d)
    return buf.getvalue()


def write_zip_gp_bits(entries, comp, bits, level=None):
    """a ZIP as Info-ZIP / 7-Zip write it at a non-default level: general purpose bits 1-2 of every non-directory member
    carry the (purely informational, APPNOTE 4.4.4) compression option -- 01 maximum, 10 fast, 11 super fast; bit 11 =
    UTF-8 names.  The flags are patched into the local and the central header of the archive zipfile wrote."""
    buf = io.BytesIO()
    with zipfile.ZipFile(buf, "w", comp, compresslevel=level) as z:
        for n, d in entries:
            z.writestr(n + "/" if d is None else n, b"" if d is None else d)
    raw = bytearray(buf.getvalue())
    with zipfile.ZipFile(io.BytesIO(bytes(raw))) as z:
        infos = [(i.header_offset, i.is_dir()) for i in z.infolist()]
        cd = z.start_dir
    for off, isdir in infos:
        assert raw[off:off + 4] == b"PK\x03\x04"
        if not isdir:
            raw[off + 6] |= bits & 0xFF
    p = cd
    for off, isdir in infos:
        assert raw[p:p + 4] == b"PK\x01\x02"
        if not isdir:
            raw[p + 8] |= bits & 0xFF
        n, e, c = struct.unpack("<HHH", raw[p + 28:p + 34])
        p += 46 + n + e + c
    return bytes(raw)


def write_zip_streamed(entries, comp):
    """a ZIP written to a pipe (zip - ... | ..., zipfile on an unseekable stream): sizes and CRC follow the data in a data
    descriptor, general purpose bit 3 is set on every member"""
    class Sink:
        def __init__(self):
            self.data = bytearray()

        def write(self, b):
            self.data += b
            return len(b)

        def flush(self):
            pass
    sink = Sink()
    with zipfile.ZipFile(sink, "w", comp) as z:
        for n, d in entries:
            z.writestr(n + "/" if d is None else n, b"" if d is None else d)
    return bytes(sink.data)


def write_tar(entries, mode, fmt=tarfile.DEFAULT_FORMAT):
    buf = io.BytesIO()
    with tarfile.open(fileobj=buf, mode=mode, format=fmt) as t:
        for n, d in entries:
            ti = tarfile.TarInfo(n)
            if d is None:
                ti.type = tarfile.DIRTYPE
                t.addfile(ti)
            else:
                ti.size = len(d)
                t.addfile(ti, io.BytesIO(d))
    return buf.getvalue()


LAYOUTS = [("zip-stored", "a.zip", lambda e: write_zip(e, zipfile.ZIP_STORED)),
           ("zip-deflated", "a.zip", lambda e: write_zip(e, zipfile.ZIP_DEFLATED)),
           ("tar", "a.tar", lambda e: write_tar(e, "w")), ("tar.gz", "a.tar.gz", lambda e: write_tar(e, "w:gz")),
           ("tar.bz2", "a.tar.bz2", lambda e: write_tar(e, "w:bz2")), ("tar.xz", "a.tar.xz", lambda e: write_tar(e, "w:xz"))]
for _m in ("copy", "lzma", "lzma2"):
    for _solid in (True, False):
        LAYOUTS.append((f"7z-{_m}-{'solid' if _solid else 'folder-per-file'}", "a.7z",
                        (lambda e, m=_m, s=_solid: write7z(e, m, s))))

def write_tar_multistream(entries, kind):
    """a compressed TAR whose compressed file is a concatenation of two streams (pbzip2 / pixz / appended gzip members),
    cut at a 512-byte block boundary in the middle of the archive"""
    import bz2
    import gzip
    raw = write_tar(entries, "w")
    cut = max(512, (len(raw) // 1024) * 512)
    comp = {"gz": gzip.compress, "bz2": bz2.compress, "xz": lzma.compress}[kind]
    return comp(raw[:cut]) + comp(raw[cut:])


LAYOUTS += [("tar.gz-two-streams", "a.tar.gz", lambda e: write_tar_multistream(e, "gz")),
            ("tar.bz2-two-streams", "a.tar.bz2", lambda e: write_tar_multistream(e, "bz2")),
            ("tar.xz-two-streams", "a.tar.xz", lambda e: write_tar_multistream(e, "xz"))]
LAYOUTS += [("tar-gnu", "a.tar", lambda e: write_tar(e, "w", tarfile.GNU_FORMAT)), ("tar-ustar", "a.tar", lambda e: write_tar(e, "w", tarfile.USTAR_FORMAT)),
            ("tar.gz-gnu", "a.tar.gz", lambda e: write_tar(e, "w:gz", tarfile.GNU_FORMAT)),
            ("7z-copy-blocks-of-2", "a.7z", lambda e: write7z(e, "copy", group=2)), ("7z-lzma2-blocks-of-2", "a.7z", lambda e: write7z(e, "lzma2", group=2)),
            ("7z-lzma-blocks-of-3", "a.7z", lambda e: write7z(e, "lzma", group=3)),
            ("7z-copy-solid-noattrs-nocrc", "a.7z", lambda e: write7z(e, "copy", True, with_attrs=False, with_crc=False)),
            ("7z-copy-folder-per-file-noattrs", "a.7z", lambda e: write7z(e, "copy", False, with_attrs=False)),
            ("7z-lzma2-solid-encoded-header", "a.7z", lambda e: write7z(e, "lzma2", True, encode_header=True)),
            ("7z-copy-folder-per-file-encoded-header", "a.7z", lambda e: write7z(e, "copy", False, encode_header=True)),
            ("7z-lzma-blocks-of-2-encoded-header", "a.7z", lambda e: write7z(e, "lzma", group=2, encode_header=True))]

# ZIP general purpose flag bits other than bit 0 (encrypted) and bit 3 (data descriptor): deflate option bits 1-2
LAYOUTS += [("zip-deflated-gp-maximum", "a.zip", lambda e: write_zip_gp_bits(e, zipfile.ZIP_DEFLATED, 0x02, 9)),
            ("zip-deflated-gp-fast", "a.zip", lambda e: write_zip_gp_bits(e, zipfile.ZIP_DEFLATED, 0x04, 2)),
            ("zip-deflated-gp-superfast", "a.zip", lambda e: write_zip_gp_bits(e, zipfile.ZIP_DEFLATED, 0x06, 1))]
LAYOUTS += [("zip-deflated-streamed-data-descriptor", "a.zip", lambda e: write_zip_streamed(e, zipfile.ZIP_DEFLATED)),
            ("zip-stored-streamed-data-descriptor", "a.zip", lambda e: write_zip_streamed(e, zipfile.ZIP_STORED))]
# LZMA1 coders with tuned lc / lp / pb and a dictionary that is not the preset's
LAYOUTS += [("7z-lzma-lc4-solid", "a.7z", lambda e: write7z(e, "lzma:lc=4", True)),
            ("7z-lzma-lc0-lp2-folder-per-file", "a.7z", lambda e: write7z(e, "lzma:lc=0:lp=2", False)),
            ("7z-lzma-pb0-lp1-dict64k-blocks-of-2", "a.7z", lambda e: write7z(e, "lzma:pb=0:lp=1:dict_size=65536", group=2))]

DOCS = [("a.txt", b"alpha alpha\nline two"), ("sub/b.md", b"# bravo\n\ntext"), ("c.csv", b"x,y\n1,2\n3,4\n"), ("sub/deep/d.json", b'{"k": [1, 2, 3]}'),
        ("e.html", b"<html><body><p>echo</p></body></html>"), ("f.txt", b"foxtrot " * 40)]
NOISE = [("dir1", None), ("empty.txt", b""), (".hidden.txt", b"hidden"), ("prog.exe", b"MZ\x00\x00"), ("inner.zip", b"PK\x05\x06" + b"\x00" * 18),
         ("sub", None)]
CORRUPT = ("broken.docx", b"this is not a docx file at all")


BIG_SET_LAYOUTS = ("zip-deflated", "tar.gz", "7z-copy-solid", "7z-copy-folder-per-file", "7z-lzma2-blocks-of-2", "7z-lzma2-solid-encoded-header")


def member_sets():
    yield []
    yield [DOCS[0]]
    yield DOCS[:2]
    yield [NOISE[0], DOCS[0], NOISE[1], DOCS[1], NOISE[2], DOCS[2], NOISE[3]]
    yield [DOCS[3], NOISE[5], DOCS[1], NOISE[4], DOCS[4], DOCS[5], NOISE[1]]
    for k in range(3):                       # one member corrupted at a time
        base = list(DOCS[:3])
        base.insert(k, CORRUPT)
        yield base
    yield [NOISE[1], NOISE[0]]               # only an empty file and a directory
    yield [("z0.txt", b""), DOCS[0], DOCS[1], ("sub/z1.md", b""), DOCS[2], DOCS[5]]     # zero-length files before non-empty ones
    yield list(DOCS)                                                                      # six members: >= 3 folders / blocks
    yield [("d\u00e9j\u00e0/\u00fcber.txt", b"non-ascii name"), ("\u65e5\u672c.md", "# \u65e5\u672c".encode()), DOCS[0], ("big.txt", b"0123456789" * 3000)]
    yield [DOCS[1], DOCS[0]] + [(f"n{i}.txt", f"member {i}".encode() * (i + 1)) for i in range(9)]      # eleven members
    # UTF-16 code units with a zero low / high byte next to each other, surrogate pairs, combining marks
    yield [("plan\u4e00.txt", b"cjk one after ascii"), ("L\u0100tvija.md", b"# a-macron"), ("x\u2200y\u0100\u00ff.txt", b"for all"),
           ("\u0100\u0100.txt", b"two macrons"), ("emoji\U0001f600.txt", b"non-BMP"), ("a\u0300.txt", b"combining"), DOCS[0]]
    # base names that merely CONTAIN an archive extension, upper-case extensions, several dots, spaces
    yield [("docs/sales.targets.txt", b"targets"), ("us.zipcodes.csv", b"zip,city\n1,a\n"), ("backup.7z.notes.txt", b"notes"), ("v1.2.tgz.readme.md", b"# readme"),
           ("REPORT.TXT", b"upper"), ("my report (final).txt", b"spaces"), ("real.tar.gz", b"\x1f\x8b\x08"), ("x.txz.md", b"# x")]
    # more than 8 / 16 entries with directories and zero-length files interleaved (bit vectors spanning several bytes)
    many = []
    for i in range(21):
        if i % 5 == 1:
            many.append((f"dir{i}", None))
        elif i % 7 == 3:
            many.append((f"dir1/empty{i}.txt", b""))
        else:
            many.append((f"dir1/m{i:02d}.txt", f"member number {i}\n".encode() * (1 + i % 4)))
    yield many
    yield [("deep/" * 12 + "n" * 90 + ".txt", b"long name"), DOCS[0]]                      # a name longer than 127 UTF-16 units
    yield [(f"f{i:03d}.txt", f"{i}".encode()) for i in range(130)]                          # >= 128 entries: two-byte NUMBERs for counts
    # the same member name listed more than once (append-mode updates): every listed entry keeps its own bytes
    yield [("notes.txt", b"first version"), DOCS[0], ("notes.txt", b"second version, longer"), ("sub/b.md", b"# other bravo"), DOCS[1]]
    # absolute member names (tar -P, writestr with a full path): still labelled archive!/member
    yield [("/srv/share/report.txt", b"absolute"), DOCS[0], ("/abs.md", b"# abs")]
    # path components that are not plain names: a tree packed from the current directory (`tar cf x.tar .`, `zip -r x.zip ./docs`),
    # '.' inside a path; members below hidden DIRECTORIES and below a nested __MACOSX (only a hidden base name and the
    # __MACOSX/ prefix of the whole name make a member invisible)
    yield [("./a1.txt", b"packed from dot"), ("./sub/b1.md", b"# dot sub"), ("docs/./c1.csv", b"x\n1\n"), DOCS[0]]
    yield [(".config/notes.txt", b"in a hidden dir"), ("docs/.cache/index.html", b"<html><body><p>cached</p></body></html>"),
           ("export/__MACOSX/r.txt", b"nested macosx"), ("__MACOSX/._a.txt", b"resource fork"), ("__MACOSX/b.txt", b"skipped"), DOCS[1]]
    # names that CONTAIN two or more consecutive dots without being a '..' path component (ranges, an ellipsis)
    yield [("minutes 2023..2024.txt", b"range"), ("notes...md", b"# ellipsis"), ("v1..v2/readme.txt", b"dir with dots"), ("draft..final.txt", b"draft"),
           DOCS[0], ("..two-dots-first.txt", b"hidden by its base name"), ("a..b", None)]


def observe(r):
    m = r.get_metadata()
    return [m.filename, m.file_path, json.loads(json.dumps(r.to_json(), default=repr, sort_keys=True))]


def member_limit():
    from sharepoint2text.parsing.extractors import archive_extractor as ae
    return ae._config.max_memory_size


def only_layouts(entries):
    """layout filter of the special member sets (None = every layout)"""
    names = [n for n, _d in entries]
    if len(names) != len(set(names)) or any(n.startswith("/") for n in names):
        # duplicate member names / absolute member names: ZIP and TAR keep them as they are; a 7z extraction to disk cannot
        # (ambiguous or unsafe paths are rejected by the reader by design)
        return lambda l: not l.startswith("7z")
    return None


def expected(entries, archive_name, with_origin=False):
    """direct extraction of every visible supported member on its own, in archive order"""
    from sharepoint2text.parsing.router import get_extractor, is_supported_file
    out = []
    for name, data in entries:
        if data is None:
            continue
        base = os.path.basename(name)
        if base.startswith(".") or name.startswith("__MACOSX/") or not is_supported_file(base):
            continue
        if base.lower().endswith((".zip", ".tar", ".tar.gz", ".tgz", ".tar.bz2", ".tbz2", ".tar.xz", ".txz", ".7z")):
            continue
        if len(data) > member_limit():              # members above the configured per-member limit are skipped (C12)
            continue
        try:
            res = list(get_extractor(base)(io.BytesIO(data), path=f"{archive_name}!/{name}"))
        except Exception:  # noqa  a corrupt member has no results
            continue
        out.extend((observe(r), len(data)) if with_origin else observe(r) for r in res)
    return out


def run_archive(data, archive_name):
    from sharepoint2text.parsing.extractors.archive_extractor import read_archive
    out = []
    try:
        for r in read_archive(io.BytesIO(data), archive_name):
            out.append(observe(r))
    except Exception as e:  # noqa
        return out, f"{type(e).__name__}: {e}"
    return out, None


def first_diff(got, want, optional=()):
    """first difference between the result lists; `optional` = indices of `want` that may be absent from `got`
    (the input class of a recorded finding: the affected member's own result), everything else must agree in order"""
    def short(x):
        return None if x is None else [x[0], x[1], str(x[2].get("content", x[2]))[:60]]
    i = j = 0
    while i < len(got) or j < len(want):
        g = got[i] if i < len(got) else None
        w = want[j] if j < len(want) else None
        if g is not None and g == w:
            i, j = i + 1, j + 1
        elif w is not None and j in optional:
            j += 1
        else:
            return f"result #{i}: got {short(g)}, direct extraction gives {short(w)}"
    return None


def recorded(label, entries):
    """input classes of the recorded known findings (known_findings.json); each has its own witness replay"""
    if label in ("tar", "tar-gnu", "tar-ustar") and not entries and still_open("F27"):
        return "F27"
    return None


def still_open(prefix):
    """an exemption for the input class of a recorded finding holds only while the finding is listed as open in
    known_findings.json (`findings`); once it is fixed in the library the class is checked like every other input"""
    try:
        k = json.load(open(os.path.join(os.path.dirname(os.path.dirname(os.path.abspath(__file__))), "known_findings.json")))
        return any(f.get("property") == "C10" and str(f.get("id", "")).startswith(prefix) for f in k.get("findings", []))
    except (OSError, ValueError, AttributeError):
        return False


def optional_results(label, entries, aname):
    """F25 (recorded): in a 7z archive the result of a ZERO-LENGTH member itself may be missing; every other member's
    result, the order, and the absence of errors are still required"""
    if not label.startswith("7z") or not still_open("F25"):
        return ()
    return {k for k, (_r, n) in enumerate(expected(entries, aname, with_origin=True)) if n == 0}


def matrix(layout_filter=None, sets=None, skip_recorded=True):
    """-> first mismatch dict or None"""
    for entries in (sets if sets is not None else list(member_sets())):
        for label, aname, build in LAYOUTS:
            if layout_filter and not layout_filter(label):
                continue
            if skip_recorded and recorded(label, entries):
                continue
            if len(entries) > 50 and label not in BIG_SET_LAYOUTS:        # the 130-entry set: one layout per container / coder family
                continue
            lf = only_layouts(entries)
            if lf is not None and not lf(label):
                continue
            data = build(entries)
            got, err = run_archive(data, aname)
            want = expected(entries, aname)
            d = first_diff(got, want, optional_results(label, entries, aname) if skip_recorded else ())
            if err is not None or d is not None:
                return {"target": "archive_extractor.py::read_archive", "inputs": {"layout": label, "members": [[n, None if b is None else f"{len(b)} bytes"] for n, b in entries],
                                                                                   "archive_hex": data.hex() if len(data) < 1500 else f"{len(data)} bytes"},
                        "expected": "results equal direct extraction of each visible supported member, in archive order",
                        "observed": (err + "; " if err else "") + (d or "")}
    return None


# ----------------------------------------------------- function-level checks --
def reader_on(data):
    from sharepoint2text.parsing.extractors.util.sevenzip import SevenZipReader
    new = io.BytesIO(data)
    src = io.BytesIO(write7z([]))
    try:
        # a reader built by its own constructor (over an empty archive) and then pointed at the bytes under test: whichever
        # attributes the constructor sets exist, and the stream is found by identity, not by the name of a private attribute
        r = SevenZipReader(src)
        slots = [k for k, v in vars(r).items() if v is src or isinstance(v, io.BytesIO)]       # the archive and the (header) stream being parsed
        for k in slots:
            setattr(r, k, new)
        if not slots:
            raise AttributeError("stream attribute not found")
    except Exception:  # noqa  constructor not usable this way: the bare object with the stream under its customary name
        r = SevenZipReader.__new__(SevenZipReader)
        r._stream = new
    r._replay_io = new
    return r


def check_read_number():
    import random
    rnd = random.Random(10)
    cases = [bytes([b0]) + bytes(rnd.randrange(256) for _ in range(8)) for b0 in range(256)]
    cases += [number(v) + b"\xaa" for v in (0, 1, 127, 128, 0x3FFF, 0x4000, 2 ** 32, 2 ** 56 - 1, 2 ** 56, 2 ** 64 - 1)]
    for data in cases:
        r = reader_on(data)
        got = (r._read_number(), r._replay_io.tell())
        if got != number_spec(data):
            return {"target": "sevenzip.py::SevenZipReader._read_number", "inputs": {"stream_hex": data.hex()},
                    "expected": f"(value, bytes consumed) = {number_spec(data)}", "observed": str(got)}
    return None


def check_bool_vector():
    for count in range(0, 20):
        for data in (bytes(4), b"\xff" * 4, b"\xa5\x3c\x81\x0f", b"\x01\x80\x7e\xc3", bytes([0xA5]) * 4):
            r = reader_on(data)
            got = r._read_boolean_vector(count)
            want = [bool(data[i // 8] & (0x80 >> (i % 8))) for i in range(count)]
            if got != want or r._replay_io.tell() != (count + 7) // 8:
                return {"target": "sevenzip.py::SevenZipReader._read_boolean_vector", "inputs": {"count": count, "stream_hex": data.hex()},
                        "expected": str(want), "observed": f"{got} pos={r._replay_io.tell()}"}
    return None


def check_bool_vector_defined():
    """Digests-style vector: allAreDefined byte, then (if 0) the bit vector"""
    for count in range(0, 18):
        for first in (0x00, 0x01, 0xFF):
            for tail in (bytes(4), b"\xff" * 4, b"\xa5\x3c\x81\x0f", b"\x01\x80\x7e\xc3"):
                data = bytes([first]) + tail
                r = reader_on(data)
                got = r._read_boolean_vector(count, check_defined=True)
                if first:
                    want, end = [True] * count, 1
                else:
                    want, end = [bool(data[1 + i // 8] & (0x80 >> (i % 8))) for i in range(count)], 1 + (count + 7) // 8
                if list(got) != want or r._replay_io.tell() != end:
                    return {"target": "sevenzip.py::SevenZipReader._read_boolean_vector", "inputs": {"count": count, "check_defined": True, "stream_hex": data.hex()},
                            "expected": f"{want} pos={end}", "observed": f"{list(got)} pos={r._replay_io.tell()}"}
    return None


def spec_digests(data, p, n):
    """position after a Digests(n) section starting at p (7zFormat.txt)"""
    if data[p]:
        return p + 1 + 4 * n
    defined = [bool(data[p + 1 + i // 8] & (0x80 >> (i % 8))) for i in range(n)]
    return p + 1 + (n + 7) // 8 + 4 * sum(defined)


def spec_pack_info(data):
    """independent parse of a PackInfo section -> (absolute pack position, sizes, end) | None | 'bad'"""
    if data[0] != 0x06:
        return None
    p = 1
    pos, k = number_spec(data, p); p += k
    n, k = number_spec(data, p); p += k
    sizes = []
    t = data[p]; p += 1
    if t == 0x09:
        for _ in range(n):
            v, k = number_spec(data, p); p += k
            sizes.append(v)
        t = data[p]; p += 1
    if t == 0x0A:
        p = spec_digests(data, p, n)
        t = data[p]; p += 1
    return (32 + pos, sizes, p) if t == 0 else "bad"


def check_pack_info():
    """SevenZipReader._parse_pack_info against the PackInfo grammar: 0..4 streams, with / without sizes, every digest layout"""
    import itertools as _it
    from sharepoint2text.parsing.extractors.util.sevenzip import Bad7zFile
    for n in range(0, 5):
        size_sets = [[(7 * j + 3) * (200 ** (j % 3)) for j in range(n)]]
        for sizes in size_sets:
            for with_sizes in (True, False):
                digest_variants = [None, b"\x01" + b"\xAA\xBB\xCC\xDD" * n]
                for bits in _it.product((0, 1), repeat=n):
                    digest_variants.append(b"\x00" + bitvec(bits) + b"\x11\x22\x33\x44" * sum(bits))
                for dg in digest_variants:
                    for end in (b"\x00", b"\x07"):
                        data = b"\x06" + number(5 + n) + number(n)
                        if with_sizes:
                            data += b"\x09" + b"".join(number(x) for x in sizes)
                        if dg is not None:
                            data += b"\x0a" + dg
                        data += end + b"\xEE" * 3
                        want = spec_pack_info(data)
                        r = reader_on(data)
                        r._header_offset, r._pack_positions, r._pack_sizes = 32, [], []
                        try:
                            res = r._parse_pack_info()
                            got = (res[0], list(res[1]), r._replay_io.tell()) if res is not None else None
                            if got is not None and (list(r._pack_sizes) != got[1] or list(r._pack_positions)[:1] != [got[0]]):
                                got = ("fields differ", list(r._pack_positions), list(r._pack_sizes))
                        except Bad7zFile:
                            got = "bad"
                        except Exception as e:  # noqa
                            got = f"{type(e).__name__}: {e}"
                        if got != want:
                            return {"target": "sevenzip.py::SevenZipReader._parse_pack_info", "inputs": {"stream_hex": data.hex()},
                                    "expected": f"(absolute position, sizes, end of section) = {want}", "observed": str(got)}
    return None


def check_tar_member_read_failure():
    """a TAR member whose bytes cannot be read affects only itself: the other members still come out, in order.
    The failure is injected into tarfile.TarFile.extractfile itself (the real class: every way of opening and walking the
    archive keeps working); if the code under test never reads the member through it, nothing was injected: no verdict."""
    entries = list(DOCS[:4])
    data = write_tar(entries, "w")
    real = tarfile.TarFile.extractfile
    for bad in (entries[0][0], entries[1][0], entries[3][0]):
        hit = []

        def failing(self, member, bad=bad, hit=hit):
            if getattr(member, "name", member) == bad:
                hit.append(1)
                raise OSError("unreadable member (injected)")
            return real(self, member)
        tarfile.TarFile.extractfile = failing
        try:
            got, err = run_archive(data, "a.tar")
        finally:
            tarfile.TarFile.extractfile = real
        if not hit:
            return None
        want = expected([e for e in entries if e[0] != bad], "a.tar")
        d = first_diff(got, want)
        if err is not None or d is not None:
            return {"target": "archive_extractor.py::_extract_from_tar_optimized", "inputs": {"members": [n for n, _b in entries], "unreadable_member": bad},
                    "expected": "the results of the readable members, in order", "observed": (err + "; " if err else "") + (d or "")}
    return None


def check_detect():
    from sharepoint2text.parsing.extractors.archive_extractor import _detect_archive_type_optimized
    for label, _aname, build in LAYOUTS:
        want = "zip" if label.startswith("zip") else ("7z" if label.startswith("7z") else label.split("-")[0])
        for entries in ([DOCS[0]], DOCS[:3]):
            got = _detect_archive_type_optimized(io.BytesIO(build(entries)))
            if got != want:
                return {"target": "archive_extractor.py::_detect_archive_type_optimized", "inputs": {"layout": label}, "expected": want, "observed": str(got)}
    return None


def check_7z_bytes():
    """SevenZipReader level: every entry is listed with its name / size, and extractall writes every non-empty member's own
    bytes (also members no extractor exists for), for all coders / folder layouts of the writer"""
    import tempfile
    from sharepoint2text.parsing.extractors.util.sevenzip import SevenZipReader
    for entries in member_sets():
        for label, _aname, build in LAYOUTS:
            if not label.startswith("7z") or (only_layouts(entries) is not None and not only_layouts(entries)(label)):
                continue
            if len(entries) > 50 and label not in BIG_SET_LAYOUTS:
                continue
            data = build(entries)
            try:
                rd = SevenZipReader(io.BytesIO(data))
                listed = [(f.filename, f.uncompressed) for f in rd.list()]
                want = [(n, len(d) if d else 0) for n, d in entries]
                obs = None
                if listed != want:
                    obs = f"list() = {listed[:6]}, header has {want[:6]}"
                else:
                    with tempfile.TemporaryDirectory() as td:
                        rd.extractall(td)
                        for n, d in entries:
                            if d:
                                p = os.path.join(td, n)
                                b = open(p, "rb").read() if os.path.exists(p) else None
                                if b != d:
                                    obs = f"member {n!r}: extracted {None if b is None else b[:24]!r}..., archive holds {d[:24]!r}..."
                                    break
            except Exception as e:  # noqa
                obs = f"{type(e).__name__}: {e}"
            if obs:
                return {"target": "sevenzip.py::SevenZipReader (list / extractall)", "inputs": {"layout": label, "members": [[n, None if b is None else f"{len(b)} bytes"] for n, b in entries],
                                                                                               "archive_hex": data.hex() if len(data) < 1500 else f"{len(data)} bytes"},
                        "expected": "entries listed with their names and sizes; every member extracted with its own bytes", "observed": obs}
    return None


TRICKY_UNITS = ("a", "\u00e9", "\u00ff", "\u0100", "\u0200", "\u4e00", "\u2200", "\uff00", "\U0001f600", "\u0301")


def files_info_bytes(names, empty_streams, empty_files, extra_props=(), order=("es", "ef", "names", "attrs")):
    """FilesInfo section (7zFormat.txt) after the 0x05 marker: NumFiles, then properties (id, size, data) ..., 0x00"""
    n = len(names)
    props = {}
    if any(empty_streams):
        props["es"] = (0x0E, bitvec(empty_streams))
        ef = [f for f, e in zip(empty_files, empty_streams) if e]
        if any(ef):
            props["ef"] = (0x0F, bitvec(ef))
    props["names"] = (0x11, b"\x00" + b"".join(x.encode("utf-16-le") + b"\x00\x00" for x in names))
    props["attrs"] = (0x15, b"\x01\x00" + b"".join(struct.pack("<I", 0x10 if (e and not f) else 0x20) for e, f in zip(empty_streams, empty_files)))
    out = number(n)
    for key in order:
        if key in props:
            pid, body = props[key]
            out += bytes([pid]) + number(len(body)) + body
        for pid, body in extra_props:
            if key == "names":                          # unknown / skipped properties between the known ones (kDummy, times)
                out += bytes([pid]) + number(len(body)) + body
    return out + b"\x00"


def check_files_info():
    """SevenZipReader._parse_files_info against the FilesInfo grammar: the vectors handed to _build_file_list are the header's
    (names decoded as NUL-terminated UTF-16-LE strings -- every pair of interesting code units --, EmptyStream / EmptyFile bits for
    up to 20 entries, properties in any order, unknown properties skipped by their size)"""
    import itertools as _it
    cases = []
    for a, b in _it.product(TRICKY_UNITS, repeat=2):
        cases.append(([f"{a}{b}.txt", f"x{b}{a}", "plain.md"], [False, False, False], [False, False, False], (), ("es", "ef", "names", "attrs")))
    for n in (1, 7, 8, 9, 16, 17, 20):
        es = [(i * 5 + n) % 3 == 0 for i in range(n)]
        ef = [e and (i % 2 == 0) for i, e in enumerate(es)]
        names = [f"d{i}/n\u0100{i}.txt" for i in range(n)]
        cases.append((names, es, ef, (), ("es", "ef", "names", "attrs")))
        cases.append((names, es, ef, ((0x19, b"\x00" * 3), (0x14, b"\x01\x00" + b"\x11" * 8 * n)), ("names", "es", "ef", "attrs")))
    for names, es, ef, extra, order in cases:
        data = files_info_bytes(names, es, ef, extra, order)
        r = reader_on(data + b"\xEE\xEE")
        got = {}
        r._build_file_list = lambda *a, **k: got.update(args=a, kw=k)          # capture what the parser hands over
        try:
            r._parse_files_info()
            vals = list(got.get("args", ())) + list(got.get("kw", {}).values())
            seen_names = next((list(v) for v in vals if isinstance(v, list) and v and all(isinstance(x, str) for x in v)), None if names else [])
            bools = [list(v) for v in vals if isinstance(v, list) and all(isinstance(x, bool) for x in v) and len(v) == len(names)]
            obs = None
            if vals[:1] != [len(names)]:
                obs = f"num_files = {vals[:1]}"
            elif seen_names != names:
                obs = f"names = {seen_names!r}"
            elif es not in bools or (any(ef) and ef not in bools):
                obs = f"EmptyStream / EmptyFile vectors = {bools}"
            elif r._replay_io.tell() != len(data):
                obs = f"section ends at {len(data)}, parser stopped at {r._replay_io.tell()}"
        except Exception as e:  # noqa
            obs = f"{type(e).__name__}: {e}"
        if obs:
            return {"target": "sevenzip.py::SevenZipReader._parse_files_info", "inputs": {"section_hex": data.hex() if len(data) < 600 else f"{len(data)} bytes",
                                                                                       "names": names, "empty_streams": es, "empty_files": ef},
                    "expected": "num_files, names, EmptyStream and EmptyFile vectors of the section are handed to _build_file_list; position after the END marker",
                    "observed": obs}
    return None


def check_files_info_attributes():
    """7zFormat.txt, kWinAttributes: AllAreDefined [BitVector] External(=0) then one UINT32 per defined entry: the attributes handed to
    _build_file_list are the UINT32s the section stores (the directory bit 0x10 is read from them)"""
    for n in (1, 3, 9):
        es = [i % 3 == 1 for i in range(n)]
        ef = [False] * n
        names = [f"n{i}.txt" for i in range(n)]
        want = [0x10 if (e and not f) else 0x20 for e, f in zip(es, ef)]
        data = files_info_bytes(names, es, ef)
        r = reader_on(data + b"\xEE\xEE")
        got = {}
        r._build_file_list = lambda *a, **k: got.update(args=a, kw=k)
        try:
            r._parse_files_info()
            vals = list(got.get("args", ())) + list(got.get("kw", {}).values())
            ints = [list(v) for v in vals if isinstance(v, list) and len(v) == n and all(isinstance(x, int) and not isinstance(x, bool) for x in v)]
            obs = None if want in ints else f"attributes = {[[hex(x) for x in v] for v in ints]}"
        except Exception as e:  # noqa
            obs = f"{type(e).__name__}: {e}"
        if obs:
            return {"target": "sevenzip.py::SevenZipReader._parse_files_info", "inputs": {"section_hex": data.hex(), "names": names, "attributes": [hex(x) for x in want]},
                    "expected": f"attributes {[hex(x) for x in want]} handed to _build_file_list (External byte skipped, then one UINT32 per entry)", "observed": obs}
    return None


def attributes_content_witness():
    """what the misread costs: an entry whose attribute word has bit 28 set (p7zip / py7zr store st_mode << 16: S_IFIFO) makes the NEXT entry a
    directory (its low byte is that entry's high byte), which shifts every later member's bytes"""
    entries = [("a.txt", b"alpha"), ("b.txt", b"bravo!"), ("c.txt", b"charlie")]
    data = write7z(entries, "copy", True)
    orig = b"".join(struct.pack("<I", 0x20) for _ in entries)
    i = data.rindex(orig)
    d2 = bytearray(data)
    d2[i:i + 4] = struct.pack("<I", 0x10000020)
    h0 = 32 + struct.unpack("<Q", data[12:20])[0]
    hdr = bytes(d2[h0:])
    start = struct.pack("<QQI", h0 - 32, len(hdr), zlib.crc32(hdr))
    d2[8:32] = struct.pack("<I", zlib.crc32(start)) + start
    got, err = run_archive(bytes(d2), "a.7z")
    want = expected(entries, "a.7z")
    return first_diff(got, want), err


def check_member_size_limit():
    """members above the per-member limit (lowered through the public configure_archive_extraction) are skipped, every other
    member -- in particular the ones stored AFTER an oversized one in the same solid 7z folder -- still comes out as itself"""
    from sharepoint2text.parsing.extractors import archive_extractor as ae
    old = ae._config
    entries = [("small.txt", b"small"), ("big1.txt", b"B" * 3000), ("after.txt", b"after the big one"), ("sub/big2.md", b"# " + b"M" * 5000),
               ("last.csv", b"a,b\n1,2\n")]
    try:
        ae.configure_archive_extraction(max_memory_size=1000)
        return matrix(None, [entries])
    finally:
        ae._config = old


def check_7z_large_solid():
    """a solid LZMA2 folder larger than common window sizes, written with a 32 MiB dictionary (7-Zip: 16 MiB at -mx=5, 64 MiB at -mx=9),
    whose last member repeats the beginning of the first one (a match reaching back > 8 MiB): every member's own bytes come out"""
    import random
    import tempfile
    from sharepoint2text.parsing.extractors.util.sevenzip import SevenZipReader
    rnd = random.Random(1010)
    first = rnd.randbytes(4_700_000)
    entries = [("big/a.bin", first), ("big/b.bin", rnd.randbytes(4_700_000)), ("big/c.bin", first[:300_000] + b"tail")]
    cache = os.path.join(os.path.dirname(os.path.dirname(os.path.abspath(__file__))), "out", "cache", "c10_large_solid_v1.7z")
    data = None
    if os.path.exists(cache):                       # the archive is deterministic; compressing it takes ~5 s, reading it back none
        raw = open(cache, "rb").read()
        data = raw[:-4] if len(raw) > 36 and zlib.crc32(raw[32:-4]) == struct.unpack("<I", raw[-4:])[0] else None
    if data is None:
        data = write7z(entries, "lzma2:26", True, with_crc=False)
        try:
            os.makedirs(os.path.dirname(cache), exist_ok=True)
            open(cache, "wb").write(data + struct.pack("<I", zlib.crc32(data[32:])))
        except OSError:
            pass
    obs = None
    try:
        rd = SevenZipReader(io.BytesIO(data))
        with tempfile.TemporaryDirectory() as td:
            rd.extractall(td)
            for n, d in entries:
                b = open(os.path.join(td, n), "rb").read() if os.path.exists(os.path.join(td, n)) else None
                if b != d:
                    obs = f"member {n!r}: extracted {None if b is None else len(b)} bytes, archive holds {len(d)} bytes (content differs)"
                    break
    except Exception as e:  # noqa
        obs = f"{type(e).__name__}: {e}"
    if obs:
        return {"target": "sevenzip.py::SevenZipReader (extractall, LZMA2)", "inputs": {"layout": "7z one solid LZMA2 folder, property byte 26 (32 MiB dictionary)",
                                                                                    "members": [[n, f"{len(d)} bytes"] for n, d in entries],
                                                                                    "note": "c.bin repeats the first 300000 bytes of a.bin, 9.4 MB earlier"},
                "expected": "every member extracted with its own bytes", "observed": obs}
    return None


# ------------------------------------------------------------------ findings --
def finding(fid):
    if fid == "F10-one-folder-per-file":
        entries = [("a.txt", b"alpha alpha"), ("b.txt", b"bravo"), ("sub/c.txt", b"charlie!")]
        r = matrix(lambda l: l == "7z-copy-folder-per-file", [entries])
        return r
    if fid == "F25-7z-empty-file-taken-for-directory":
        entries = [("a.txt", b"alpha"), ("empty.txt", b""), ("b.txt", b"bravo")]
        data = write7z(entries, "copy", True)
        got, err = run_archive(data, "a.7z")
        want = expected(entries, "a.7z")
        if any(w[0] == "empty.txt" for w in want) and not any(g[0] == "empty.txt" for g in got):
            return {"target": "archive_extractor.py::read_archive", "inputs": {"layout": "7z-copy-solid", "members": [[n, f"{len(b)} bytes"] for n, b in entries],
                                                                               "archive_hex": data.hex()},
                    "expected": "a result for the zero-length member empty.txt (direct extraction yields one; ZIP and TAR archives of the same members do too)",
                    "observed": f"results for {[g[0] for g in got]} only" + (f"; {err}" if err else "")}
        return None
    if fid == "F26-plain-tar-first-name-starts-with-another-magic":
        from sharepoint2text.parsing.extractors.archive_extractor import _detect_archive_type_optimized
        entries = [("BZ_readme.txt", b"hello"), ("b.txt", b"bravo")]
        data = write_tar(entries, "w")
        det = _detect_archive_type_optimized(io.BytesIO(data))
        got, err = run_archive(data, "a.tar")
        if det != "tar":
            return {"target": "archive_extractor.py::_detect_archive_type_optimized", "inputs": {"layout": "tar", "members": [[n, f"{len(b)} bytes"] for n, b in entries]},
                    "expected": "detected as 'tar' (ustar magic at offset 257); members yielded",
                    "observed": f"detected as {det!r}; read_archive: {err or [g[0] for g in got]}"}
        return None
    if fid == "F31-7z-attributes-read-one-byte-early":
        r = check_files_info_attributes()
        if r is not None:
            try:
                diff, err = attributes_content_witness()
                r["observed"] += f"; with attribute 0x10000020 on the first of three members read_archive gives: {diff or err}"
            except Exception as e:  # noqa
                r["observed"] += f"; (content witness not run: {type(e).__name__})"
        return r
    if fid == "F27-empty-plain-tar-not-recognised":
        from sharepoint2text.parsing.extractors.archive_extractor import _detect_archive_type_optimized
        data = write_tar([], "w")
        det = _detect_archive_type_optimized(io.BytesIO(data))
        got, err = run_archive(data, "a.tar")
        if det != "tar":
            return {"target": "archive_extractor.py::_detect_archive_type_optimized", "inputs": {"layout": "tar", "members": [], "archive": f"{len(data)} NUL bytes"},
                    "expected": "detected as 'tar'; no results", "observed": f"detected as {det!r}; read_archive: {err or got}"}
        return None
    return None


def find(req):
    if req.get("known_finding"):
        r = finding(req["known_finding"])
        if r is None:
            return {"reproduced": False, "note": "recorded witness no longer fails"}
        r["reproduced"] = True
        return r
    ob = req.get("obligation", "") or ""
    checks = []
    ALL = [check_read_number, check_bool_vector, check_bool_vector_defined, check_pack_info, check_files_info, check_detect, check_7z_bytes,
           check_tar_member_read_failure, matrix, check_member_size_limit, check_7z_large_solid]
    if "native-scope" in ob:
        checks = ALL
    elif "_read_number" in ob or "_read_uint" in ob or "_read_bytes" in ob:
        checks = [check_read_number]
    elif "_read_boolean_vector" in ob:
        checks = [check_bool_vector, check_bool_vector_defined]
    elif "attributes-handed-to-_build_file_list" in ob:
        checks = [check_files_info_attributes]
    elif "_parse_files_info" in ob:
        checks = [check_files_info, check_7z_bytes, lambda: matrix(lambda l: l.startswith("7z"))]
    elif "_decompress_lzma" in ob or "_apply_decoder" in ob:
        checks = [check_7z_bytes, check_7z_large_solid, lambda: matrix(lambda l: l.startswith("7z"))]
    elif "_parse_pack_info" in ob:
        checks = [check_pack_info, check_7z_bytes, lambda: matrix(lambda l: l.startswith("7z"))]
    elif "extractall" in ob or "_decompress_folder" in ob:
        checks = [lambda: finding("F10-one-folder-per-file"), lambda: matrix(lambda l: l.startswith("7z")), check_member_size_limit]
    elif "empty-file-is-not-a-directory" in ob:
        checks = [lambda: finding("F25-7z-empty-file-taken-for-directory")]
    elif "_build_file_list" in ob or "_extract_files_from_folder" in ob or "_parse_" in ob or "_7z" in ob:
        checks = [check_7z_bytes, lambda: matrix(lambda l: l.startswith("7z")), check_member_size_limit]
    elif "outside-F26" in ob:
        # the clause that EXCLUDES the recorded class F26: its own witness does not count
        checks = [check_detect, lambda: matrix(lambda l: l.startswith("tar"))]
    elif ob.endswith("plain-tar-detected-as-tar"):
        checks = [lambda: finding("F26-plain-tar-first-name-starts-with-another-magic")]
    elif "empty-tar" in ob:
        checks = [lambda: finding("F27-empty-plain-tar-not-recognised")]
    elif "_detect_archive" in ob or "MAGIC" in ob or "read_archive" in ob:
        # routing: every layout on a small set, then the TAR layouts on every member set (the open mode read_archive builds
        # decides how a compressed container is read: multi-stream files need more than the padding of a two-member archive)
        checks = [check_detect, lambda: matrix(None, [DOCS[:2]])] + ([lambda: matrix(lambda l: l.startswith("tar"))] if "read_archive" in ob else [])
    elif "_zip_" in ob:
        checks = [lambda: matrix(lambda l: l.startswith("zip"))]
    elif "_tar_" in ob:
        checks = [check_tar_member_read_failure, lambda: matrix(lambda l: l.startswith("tar"))]
    else:
        checks = ALL
    for ck in checks:
        r = ck()
        if r is not None:
            r["reproduced"] = True
            return r
    return {"reproduced": False, "note": "no failing input in the native scope (writers x layouts x member sets)"}


def rerun(stored):
    return find({"obligation": stored.get("obligation", "")})


if __name__ == "__main__":
    import logging
    import sys
    logging.disable(logging.CRITICAL)
    sys.path.insert(0, os.environ.get("VERIF_REPO", "/repo"))
    for fid in ("F10-one-folder-per-file", "F25-7z-empty-file-taken-for-directory", "F26-plain-tar-first-name-starts-with-another-magic",
                "F27-empty-plain-tar-not-recognised", "F31-7z-attributes-read-one-byte-early"):
        print(fid, json.dumps(find({"known_finding": fid}), default=repr)[:600])
    print("scope", json.dumps(find({}), default=repr)[:800])
